//! Byzantine authorities of the cluster world. The adversary owns the keys of the authorities in
//! `sc.byz`, sees the whole tap (omniscient network adversary) and mixes, per seeded coin:
//! equivocating proposals to different subsets, votes for every proposal it sees (including
//! conflicting ones), withholding, proposals extending an old QC justified by a genuine TC built
//! from tapped timeouts plus its own under-reporting ones, timeouts that under-report its high
//! QC, QCs assembled from tapped honest votes plus its own, replays of earlier frames, silence.
//! It never does what needs more than its own stake of forged signatures.
use crate::cluster::keypair;
use crate::ident::{self, Members, Round};
use crate::net::{Net, Phase, TapEvent, TapKind, SVC_CONSENSUS, SVC_MEMPOOL};
use crate::rng::{mix, unit};
use crate::scenario::{AdvCfg, Scenario};
use consensus::{Block, ConsensusMessage, Timeout, Vote, QC, TC};
use crypto::{Digest, PublicKey, SecretKey, Signature};
use std::collections::{BTreeMap, HashMap, HashSet};

pub struct Adversary {
    net: Net,
    cfg: AdvCfg,
    seed: u64,
    members: Members,
    names: Vec<PublicKey>,
    byz: Vec<usize>,
    honest: Vec<usize>,
    secrets: HashMap<usize, SecretKey>,
    blocks: HashMap<Digest, Block>,
    qcs: BTreeMap<Round, QC>,
    tcs: BTreeMap<Round, TC>,
    votes: HashMap<(Round, Digest), HashMap<usize, Signature>>,
    timeouts: HashMap<Round, HashMap<usize, (Signature, Round)>>,
    led: HashSet<(usize, Round)>,
    voted: HashSet<(usize, Digest)>,
    timed_out: HashSet<(usize, Round)>,
    conns: HashMap<(usize, usize, u8), usize>,
    max_round: Round,
    frames: Vec<(usize, Vec<u8>)>,
    batch_digests: Vec<Digest>,
    counter: u64,
    pub stats: BTreeMap<String, u64>,
}

fn sign(d: &Digest, s: &SecretKey) -> Signature {
    Signature::new(d, s)
}

impl Adversary {
    pub fn new(sc: &Scenario, net: Net, members: Members, names: Vec<PublicKey>) -> Self {
        let mut secrets = HashMap::new();
        for b in &sc.byz {
            secrets.insert(*b, keypair(sc.seed, *b).1);
        }
        Adversary {
            net,
            cfg: sc.adv.clone(),
            seed: mix(&[sc.seed, sc.adv.seed, 900]),
            members,
            names,
            byz: sc.byz.clone(),
            honest: (0..sc.n).filter(|i| !sc.byz.contains(i)).collect(),
            secrets,
            blocks: HashMap::new(),
            qcs: BTreeMap::new(),
            tcs: BTreeMap::new(),
            votes: HashMap::new(),
            timeouts: HashMap::new(),
            led: HashSet::new(),
            voted: HashSet::new(),
            timed_out: HashSet::new(),
            conns: HashMap::new(),
            max_round: 0,
            frames: Vec::new(),
            batch_digests: Vec::new(),
            counter: 0,
            stats: BTreeMap::new(),
        }
    }

    fn coin(&mut self, p: f64, tag: u64) -> bool {
        self.counter += 1;
        unit(&[self.seed, tag, self.counter]) < p
    }

    fn pick(&mut self, n: usize, tag: u64) -> usize {
        self.counter += 1;
        if n == 0 {
            0
        } else {
            (mix(&[self.seed, tag, self.counter]) % n as u64) as usize
        }
    }

    fn stat(&mut self, k: &str) {
        *self.stats.entry(k.to_string()).or_insert(0) += 1;
        self.net.count_fault(&format!("byz.{}", k));
    }

    fn send(&mut self, from: usize, to: usize, svc: u8, bytes: &[u8]) {
        let key = (from, to, svc);
        let conn = match self.conns.get(&key) {
            Some(c) if self.net.conn_alive(*c) => Some(*c),
            _ => match self.net.h_connect(from, to, svc) {
                Ok(c) => {
                    self.conns.insert(key, c);
                    Some(c)
                }
                Err(_) => None,
            },
        };
        if let Some(c) = conn {
            let _ = self.net.h_send_frame(c, true, bytes);
        }
    }

    fn send_cons(&mut self, from: usize, to: usize, m: &ConsensusMessage) {
        let bytes = bincode::serialize(m).expect("serialize");
        self.send(from, to, SVC_CONSENSUS, &bytes);
    }

    fn high_qc(&self) -> QC {
        self.qcs.values().next_back().cloned().unwrap_or_else(QC::genesis)
    }

    fn learn_qc(&mut self, qc: &QC) {
        if !ident::is_genesis_qc(qc) && !self.qcs.contains_key(&qc.round) && ident::check_qc(qc, &self.members).is_ok() {
            self.qcs.insert(qc.round, qc.clone());
        }
    }

    fn learn_tc(&mut self, tc: &TC) {
        if !self.tcs.contains_key(&tc.round) && ident::check_tc(tc, &self.members).is_ok() {
            self.tcs.insert(tc.round, tc.clone());
        }
    }

    /// Try to assemble a QC for (round, hash) from the tapped votes plus the Byzantine ones.
    fn try_qc(&mut self, round: Round, hash: &Digest) -> Option<QC> {
        let mut have: Vec<(usize, Signature)> = self.votes.get(&(round, hash.clone())).map(|m| m.iter().map(|(a, s)| (*a, s.clone())).collect()).unwrap_or_default();
        for b in self.byz.clone() {
            if !have.iter().any(|(a, _)| *a == b) {
                have.push((b, sign(&ident::vote_digest(hash, round), &self.secrets[&b])));
            }
        }
        have.sort_by_key(|(a, _)| *a);
        let stake: u64 = have.iter().map(|(a, _)| self.members.stakes[*a] as u64).sum();
        if stake < self.members.quorum() {
            return None;
        }
        Some(QC { hash: hash.clone(), round, votes: have.into_iter().map(|(a, s)| (self.names[a], s)).collect() })
    }

    /// Try to assemble a TC for `round` from tapped timeouts plus under-reporting Byzantine ones.
    fn try_tc(&mut self, round: Round) -> Option<TC> {
        if let Some(tc) = self.tcs.get(&round) {
            return Some(tc.clone());
        }
        let mut have: Vec<(usize, Signature, Round)> = self.timeouts.get(&round).map(|m| m.iter().map(|(a, (s, h))| (*a, s.clone(), *h)).collect()).unwrap_or_default();
        for b in self.byz.clone() {
            if !have.iter().any(|(a, _, _)| *a == b) {
                have.push((b, sign(&ident::timeout_digest(round, 0), &self.secrets[&b]), 0));
            }
        }
        // Prefer the lowest reported QC rounds.
        have.sort_by_key(|(a, _, h)| (*h, *a));
        let mut acc = 0u64;
        let mut chosen = Vec::new();
        for (a, s, h) in have {
            if acc >= self.members.quorum() {
                break;
            }
            acc += self.members.stakes[a] as u64;
            chosen.push((self.names[a], s, h));
        }
        if acc < self.members.quorum() {
            return None;
        }
        Some(TC { round, votes: chosen })
    }

    fn mk_block(&self, author: usize, round: Round, qc: QC, tc: Option<TC>, payload: Vec<Digest>) -> Block {
        let mut b = Block { qc, tc, author: self.names[author], round, payload, signature: Signature::default() };
        b.signature = sign(&ident::block_digest(&b), &self.secrets[&author]);
        b
    }

    /// A Byzantine authority leads round r.
    fn lead(&mut self, b: usize, r: Round) {
        if !self.led.insert((b, r)) {
            return;
        }
        if self.coin(self.cfg.silent, 1) {
            self.stat("silent-leader");
            return;
        }
        // Candidate parents: the highest QC (needs round r - 1 or a TC), and older ones with a TC.
        let mut variants: Vec<Block> = Vec::new();
        let high = self.high_qc();
        let tc_prev = if r > 1 { self.try_tc(r - 1) } else { None };
        let mk = |this: &Self, qc: QC, payload: Vec<Digest>| -> Option<Block> {
            if qc.round + 1 == r {
                Some(this.mk_block(b, r, qc, None, payload))
            } else {
                tc_prev.clone().map(|tc| this.mk_block(b, r, qc, Some(tc), payload))
            }
        };
        if let Some(x) = mk(self, high.clone(), vec![]) {
            variants.push(x);
        }
        if self.coin(self.cfg.stale_qc, 2) {
            // Extend an older certified block (a genuine TC makes it look legitimate).
            let olds: Vec<QC> = self.qcs.values().rev().skip(1).take(4).cloned().collect();
            if !olds.is_empty() {
                let k = self.pick(olds.len(), 3);
                if let Some(x) = mk(self, olds[k].clone(), vec![]) {
                    variants.push(x);
                    self.stat("stale-parent-proposal");
                }
            } else if let Some(x) = mk(self, QC::genesis(), vec![]) {
                variants.push(x);
                self.stat("stale-parent-proposal");
            }
        }
        if self.coin(self.cfg.equivocate, 4) && !self.batch_digests.is_empty() {
            // A sibling that differs in its payload (a batch honest nodes hold).
            let k = self.pick(self.batch_digests.len(), 5);
            let d = self.batch_digests[k].clone();
            if let Some(x) = mk(self, high.clone(), vec![d]) {
                variants.push(x);
                self.stat("equivocating-proposal");
            }
        }
        if variants.is_empty() {
            self.stat("leader-without-certificate");
            return;
        }
        // Distribute: each honest node gets one variant (or nothing).
        let withhold = self.coin(self.cfg.withhold, 6);
        for h in self.honest.clone() {
            if withhold && self.coin(0.5, 7) {
                self.stat("withheld-proposal");
                continue;
            }
            let k = self.pick(variants.len(), 8);
            let blk = variants[k].clone();
            self.blocks.insert(ident::block_digest(&blk), blk.clone());
            self.send_cons(b, h, &ConsensusMessage::Propose(blk));
        }
        self.stat("byzantine-proposal-round");
        // Vote for all own variants.
        for blk in variants {
            self.cast_votes(&blk);
        }
    }

    /// Every Byzantine authority votes for the block (possibly a second block of that round).
    fn cast_votes(&mut self, blk: &Block) {
        let d = ident::block_digest(blk);
        let next = self.members.leader_index(blk.round + 1);
        for b in self.byz.clone() {
            if !self.voted.insert((b, d.clone())) {
                continue;
            }
            let v = Vote { hash: d.clone(), round: blk.round, author: self.names[b], signature: sign(&ident::vote_digest(&d, blk.round), &self.secrets[&b]) };
            self.votes.entry((blk.round, d.clone())).or_default().insert(b, v.signature.clone());
            if !self.byz.contains(&next) {
                self.send_cons(b, next, &ConsensusMessage::Vote(v));
                self.stat("byzantine-vote");
            }
        }
    }

    fn under_reporting_timeouts(&mut self, round: Round) {
        for b in self.byz.clone() {
            if !self.timed_out.insert((b, round)) {
                continue;
            }
            // Report genesis or an old QC instead of the highest one.
            let olds: Vec<QC> = self.qcs.values().rev().skip(1).take(3).cloned().collect();
            let high = if !olds.is_empty() && self.coin(0.5, 9) {
                let k = self.pick(olds.len(), 10);
                olds[k].clone()
            } else {
                QC::genesis()
            };
            let t = Timeout { signature: sign(&ident::timeout_digest(round, high.round), &self.secrets[&b]), high_qc: high, round, author: self.names[b] };
            self.timeouts.entry(round).or_default().insert(b, (t.signature.clone(), t.high_qc.round));
            for h in self.honest.clone() {
                self.send_cons(b, h, &ConsensusMessage::Timeout(t.clone()));
            }
            self.stat("under-reporting-timeout");
        }
    }

    pub fn on_tap(&mut self, ev: &TapEvent) {
        let (phase, data) = match &ev.kind {
            TapKind::Frame { phase, data, .. } => (*phase, data.clone()),
            _ => return,
        };
        if !ev.to_listener {
            return;
        }
        // Frames reaching a Byzantine listener: acknowledge (or not).
        if phase == Phase::Delivered && self.byz.contains(&ev.listener) {
            let ack = match ev.svc {
                SVC_CONSENSUS => matches!(crate::obs::safe_deserialize::<ConsensusMessage>(&data), Some(ConsensusMessage::Propose(_))),
                SVC_MEMPOOL => true,
                _ => false,
            };
            if ack && self.coin(self.cfg.ack, 11) {
                let _ = self.net.h_send_frame(ev.conn, false, b"Ack");
            }
        }
        if phase != Phase::Written {
            return;
        }
        // Only traffic of the real (honest) nodes is material for the adversary.
        if !self.honest.contains(&ev.src()) {
            return;
        }
        if ev.svc == SVC_MEMPOOL && !self.byz.contains(&ev.src()) {
            if let Some(mempool::MempoolMessage::Batch(_)) = crate::obs::safe_deserialize::<mempool::MempoolMessage>(&data) {
                let d = ident::bytes_digest(&data);
                if self.batch_digests.len() < 64 && !self.batch_digests.contains(&d) {
                    self.batch_digests.push(d);
                }
            }
            return;
        }
        if ev.svc != SVC_CONSENSUS || self.byz.contains(&ev.src()) {
            return;
        }
        let m = match crate::obs::safe_deserialize::<ConsensusMessage>(&data) {
            Some(m) => m,
            None => return,
        };
        if self.frames.len() < 400 {
            self.frames.push((ev.dst(), data.to_vec()));
        }
        let mut round_seen = 0;
        match &m {
            ConsensusMessage::Propose(b) => {
                round_seen = b.round;
                let d = ident::block_digest(b);
                let new = !self.blocks.contains_key(&d);
                self.blocks.insert(d, b.clone());
                self.learn_qc(&b.qc);
                if let Some(tc) = &b.tc {
                    self.learn_tc(tc);
                }
                if new && self.coin(self.cfg.vote_all, 12) {
                    let blk = b.clone();
                    self.cast_votes(&blk);
                }
            }
            ConsensusMessage::Vote(v) => {
                round_seen = v.round;
                if let Some(a) = self.members.index(&v.author) {
                    self.votes.entry((v.round, v.hash.clone())).or_default().insert(a, v.signature.clone());
                }
                // Assemble a QC ourselves when the tapped votes plus ours suffice.
                let to_us = self.byz.contains(&ev.dst());
                if !self.qcs.contains_key(&v.round) && (to_us || self.coin(self.cfg.forge_qc_from_tapped, 13)) {
                    if let Some(qc) = self.try_qc(v.round, &v.hash) {
                        self.qcs.insert(qc.round, qc);
                        self.stat("qc-assembled-from-tapped-votes");
                    }
                }
            }
            ConsensusMessage::Timeout(t) => {
                round_seen = t.round;
                if let Some(a) = self.members.index(&t.author) {
                    self.timeouts.entry(t.round).or_default().insert(a, (t.signature.clone(), t.high_qc.round));
                }
                self.learn_qc(&t.high_qc);
                if self.coin(self.cfg.low_timeouts, 14) {
                    self.under_reporting_timeouts(t.round);
                }
            }
            ConsensusMessage::TC(tc) => {
                round_seen = tc.round + 1;
                self.learn_tc(tc);
            }
            ConsensusMessage::SyncRequest(d, origin) => {
                // Serve blocks we authored (honest nodes ask the author first).
                if self.byz.contains(&ev.dst()) {
                    if let (Some(b), Some(o)) = (self.blocks.get(d).cloned(), self.members.index(origin)) {
                        let from = ev.dst();
                        self.send_cons(from, o, &ConsensusMessage::Propose(b));
                    }
                }
            }
        }
        if round_seen > self.max_round && round_seen - self.max_round < 10_000 {
            for r in self.max_round + 1..=round_seen {
                let l = self.members.leader_index(r);
                if self.byz.contains(&l) {
                    self.lead(l, r);
                } else if self.coin(self.cfg.equivocate * 0.3, 19) {
                    // Usurpation: a correctly signed proposal for a round it does not lead.
                    let b = self.byz[0];
                    let high = self.high_qc();
                    if high.round + 1 == r {
                        let blk = self.mk_block(b, r, high, None, vec![]);
                        self.blocks.insert(ident::block_digest(&blk), blk.clone());
                        for h in self.honest.clone() {
                            self.send_cons(b, h, &ConsensusMessage::Propose(blk.clone()));
                        }
                        self.stat("usurping-proposal");
                    }
                }
            }
            self.max_round = round_seen;
        }
        // Leadership of the next round can also start as soon as a QC / TC for this round exists.
        let nr = self.max_round + 1;
        let l = self.members.leader_index(nr);
        if self.byz.contains(&l) && !self.led.contains(&(l, nr)) && (self.qcs.contains_key(&(nr - 1)) || self.tcs.contains_key(&(nr - 1)) || self.try_tc(nr - 1).is_some()) {
            self.lead(l, nr);
        }
    }

    /// Periodic wake-up: replays of earlier frames to random honest nodes.
    pub fn on_tick(&mut self) {
        if self.frames.is_empty() || !self.coin(self.cfg.replay, 15) {
            return;
        }
        let k = self.pick(self.frames.len(), 16);
        let (_, bytes) = self.frames[k].clone();
        let ti = self.pick(self.honest.len(), 17);
        let to = self.honest[ti];
        let fi = self.pick(self.byz.len(), 18);
        let from = self.byz[fi];
        self.send(from, to, SVC_CONSENSUS, &bytes);
        self.stat("replay");
    }
}
