//! Byzantine authorities of the cluster world (filled in below).
use crate::ident::Members;
use crate::net::{Net, TapEvent};
use crate::scenario::Scenario;
use crypto::PublicKey;

pub struct Adversary {
    _net: Net,
}

impl Adversary {
    pub fn new(_sc: &Scenario, net: Net, _members: Members, _names: Vec<PublicKey>) -> Self {
        Adversary { _net: net }
    }
    pub fn on_tap(&mut self, _ev: &TapEvent) {}
    pub fn on_tick(&mut self) {}
}
