//! Seeded search over scenarios: runs a batch on all cores, decides the exit code for ONE
//! property, confirms / minimises / replays a violation, and writes the evidence file.
use crate::cluster::RunReport;
use crate::obs::Violation;
use crate::props::PropSpec;
use crate::rng::mix;
use crate::scenario::{EventKind, Scenario};
use serde_json::json;
use std::collections::{BTreeMap, BTreeSet};
use std::sync::atomic::{AtomicBool, AtomicUsize, Ordering};
use std::sync::mpsc;
use std::time::Instant;

pub struct BatchCfg {
    pub prop: String,
    pub tier: String,
    pub seed: u64,
    pub threads: usize,
    pub runs_override: Option<usize>,
    pub wall_override: Option<f64>,
    pub verif_dir: String,
    /// Where evidence and replay files go (normally the same as verif_dir).
    pub out_dir: String,
}

#[derive(serde::Deserialize, Default)]
struct KnownFindings {
    #[serde(default)]
    findings: Vec<KnownFinding>,
}

#[derive(serde::Deserialize, Clone)]
struct KnownFinding {
    property: String,
    rule: String,
    /// Substring that must occur in the violation detail ("" matches all of this rule).
    #[serde(default)]
    detail_contains: String,
    what: String,
}

fn load_known(verif_dir: &str) -> Vec<KnownFinding> {
    let p = format!("{}/known_findings.json", verif_dir);
    match std::fs::read(&p) {
        Ok(data) => serde_json::from_slice::<KnownFindings>(&data).map(|k| k.findings).unwrap_or_default(),
        Err(_) => Vec::new(),
    }
}

fn known_match<'a>(known: &'a [KnownFinding], v: &Violation) -> Option<&'a KnownFinding> {
    known.iter().find(|k| k.property == v.prop && k.rule == v.rule && v.detail.contains(&k.detail_contains))
}

pub fn scenario_seed(batch_seed: u64, prop: &str, k: u64) -> u64 {
    let ph = prop.bytes().fold(0u64, |a, b| a.wrapping_mul(131).wrapping_add(b as u64));
    mix(&[batch_seed, ph, k])
}

fn relevant<'a>(spec: &PropSpec, rep: &'a RunReport) -> Vec<&'a Violation> {
    rep.violations.iter().filter(|v| v.prop == spec.id).collect()
}

/// Does `rep` show the violation class (property, rule)?
fn shows(rep: &RunReport, prop: &str, rule: &str) -> bool {
    rep.violations.iter().any(|v| v.prop == prop && v.rule == rule)
}

fn summarize(sc: &Scenario) -> serde_json::Value {
    let mut kinds: BTreeMap<String, u64> = BTreeMap::new();
    for r in &sc.net.rules {
        *kinds.entry(r.label.clone()).or_insert(0) += 1;
    }
    let txs = sc.events.iter().filter(|e| matches!(e.kind, EventKind::Tx { .. })).count();
    json!({
        "seed": sc.seed, "world": sc.world, "n": sc.n, "stakes": sc.stakes, "byzantine": sc.byz,
        "timeout_ms": sc.params.iter().map(|p| p.timeout_delay).collect::<Vec<_>>(),
        "duration_ms": sc.duration_us / 1000,
        "latency_us": sc.net.base_lat_us, "fault_rules": kinds, "transactions": txs,
        "slow_leader_rounds": sc.mute.as_ref().map(|m| m.rounds.iter().take(12).cloned().collect::<Vec<_>>()),
        "scripted_events": sc.events.len(),
    })
}

pub fn run_batch(cfg: &BatchCfg, spec: &PropSpec) -> i32 {
    let t0 = Instant::now();
    let thorough = cfg.tier == "thorough";
    let runs = cfg.runs_override.unwrap_or(if thorough { spec.thorough_runs } else { spec.quick_runs });
    let wall_limit = cfg.wall_override.unwrap_or(if thorough { spec.thorough_wall_s } else { spec.quick_wall_s });
    let known = load_known(&cfg.verif_dir);
    println!("hsim: property={} tier={} VERIF_SEED={} planned_runs={} wall_limit_s={} threads={}", spec.id, cfg.tier, cfg.seed, runs, wall_limit, cfg.threads);

    let next = AtomicUsize::new(0);
    let stop = AtomicBool::new(false);
    let (tx, rx) = mpsc::channel::<(usize, Scenario, RunReport, Option<u64>)>();

    let mut evaluations = 0u64;
    let mut nontrivial_sigs: BTreeSet<u64> = BTreeSet::new();
    let mut all_sigs: BTreeSet<u64> = BTreeSet::new();
    let mut probes: BTreeMap<String, u64> = BTreeMap::new();
    let mut faults: BTreeMap<String, u64> = BTreeMap::new();
    let mut cross: BTreeMap<String, u64> = BTreeMap::new();
    let mut panics: BTreeMap<String, u64> = BTreeMap::new();
    let mut virt_us = 0u64;
    let mut net_events = 0u64;
    let mut samples: Vec<serde_json::Value> = Vec::new();
    let mut first_violation: Option<(Scenario, Violation, RunReport)> = None;
    let mut known_hits: BTreeMap<String, (KnownFinding, u64, u64)> = BTreeMap::new();
    let mut harness_errors: Vec<String> = Vec::new();
    let mut determinism_checked = 0u64;

    std::thread::scope(|s| {
        for _ in 0..cfg.threads {
            let tx = tx.clone();
            let (next, stop) = (&next, &stop);
            let spec = &*spec;
            let seed = cfg.seed;
            s.spawn(move || loop {
                if stop.load(Ordering::SeqCst) {
                    break;
                }
                let k = next.fetch_add(1, Ordering::SeqCst);
                if k >= runs {
                    break;
                }
                let sseed = scenario_seed(seed, spec.id, k as u64);
                let sc = match spec.enumerated.and_then(|(_, case)| case(k)) {
                    Some(sc) => sc,
                    None => (spec.gen)(sseed, thorough),
                };
                let rep = crate::runner::run_scenario(&sc);
                // Determinism self-check: every 50th scenario is executed twice.
                let twin = if k % 50 == 0 { Some(crate::runner::run_scenario(&sc).log_hash) } else { None };
                if tx.send((k, sc, rep, twin)).is_err() {
                    break;
                }
            });
        }
        drop(tx);
        for (k, sc, rep, twin) in rx {
            evaluations += 1;
            if let Some(e) = &rep.harness_error {
                harness_errors.push(format!("scenario {} seed {}: {}", k, sc.seed, e));
            }
            if let Some(h) = twin {
                determinism_checked += 1;
                if h != rep.log_hash {
                    harness_errors.push(format!("scenario {} seed {}: two executions diverged ({} vs {})", k, sc.seed, rep.log_hash, h));
                }
            }
            virt_us += rep.virt_us;
            net_events += rep.events;
            for (p, c) in &rep.probes {
                *probes.entry(p.clone()).or_insert(0) += c;
            }
            for (p, c) in &rep.faults {
                *faults.entry(p.clone()).or_insert(0) += c;
            }
            for p in &rep.panics {
                *panics.entry(p.clone()).or_insert(0) += 1;
            }
            all_sigs.insert(rep.sig_hash);
            let nt = (spec.nontrivial)(&rep);
            if nt {
                nontrivial_sigs.insert(rep.sig_hash);
            }
            if samples.len() < 3 || (nt && samples.len() < 6) {
                let mut sm = summarize(&sc);
                sm["nontrivial"] = json!(nt);
                sm["outcome"] = json!({"violations": rep.violations.len(), "commits": rep.probes.get("commit").cloned().unwrap_or(0), "virtual_ms": rep.virt_us/1000});
                samples.push(sm);
            }
            for v in &rep.violations {
                if v.prop != spec.id {
                    *cross.entry(format!("{}.{}", v.prop, v.rule)).or_insert(0) += 1;
                }
            }
            for v in relevant(spec, &rep) {
                if let Some(kf) = known_match(&known, v) {
                    let e = known_hits.entry(format!("{}|{}|{}", kf.property, kf.rule, kf.detail_contains)).or_insert((kf.clone(), 0, sc.seed));
                    e.1 += 1;
                    continue;
                }
                if first_violation.is_none() {
                    first_violation = Some((sc.clone(), v.clone(), rep.clone()));
                    stop.store(true, Ordering::SeqCst);
                }
            }
            if t0.elapsed().as_secs_f64() > wall_limit {
                stop.store(true, Ordering::SeqCst);
            }
        }
    });

    let wall = t0.elapsed().as_secs_f64();
    let mut exit = 0;
    let mut violations = 0;
    let mut replay_path = None;

    if !harness_errors.is_empty() {
        for e in harness_errors.iter().take(5) {
            println!("HARNESS-ERROR: {}", e);
        }
        exit = 2;
    }

    // Probes a property depends on must have fired, or the batch did not reach the property.
    let mut missing = Vec::new();
    for p in spec.required_probes {
        if probes.get(*p).cloned().unwrap_or(0) == 0 {
            missing.push(p.to_string());
        }
    }

    if exit == 0 {
        if let Some((sc, v, rep)) = &first_violation {
            match confirm_minimise_replay(cfg, spec, sc, v, rep) {
                Ok(path) => {
                    violations = 1;
                    println!("violation: {} [{}] {}", v.prop, v.rule, v.detail);
                    println!("VIOLATION property={} replay={}", spec.id, path);
                    replay_path = Some(path);
                    exit = 1;
                }
                Err(e) => {
                    println!("HARNESS-ERROR: violation did not confirm: {}", e);
                    exit = 2;
                }
            }
        }
    }
    for (kf, count, seed) in known_hits.values() {
        println!("KNOWN-FINDING: property={} rule={} {} (seen in {} runs, e.g. scenario seed {})", kf.property, kf.rule, kf.what, count, seed);
    }
    if exit == 0 && !missing.is_empty() && cfg.runs_override.is_none() {
        println!("HARNESS-ERROR: required probes never fired: {:?} - the batch did not reach the property", missing);
        exit = 2;
    }

    let runs_per_hour = if wall > 0.0 { evaluations as f64 / wall * 3600.0 } else { 0.0 };
    let evidence = json!({
        "property_id": spec.id,
        "tier": if thorough { "thorough" } else { "quick" },
        "seed": cfg.seed as i64,
        "level": spec.level,
        "coverage": {
            "evaluations": evaluations,
            "distinct_nontrivial": nontrivial_sigs.len(),
            "rule": format!("{} A run is NON-TRIVIAL for this property when: {}. DISTINCT = distinct interleaving signatures (hash over the per-node sequence of commit events and of decoded consensus/mempool message deliveries (node, kind, round)) among the non-trivial runs.", spec.gen_rule, spec.nontrivial_rule),
            "samples": samples,
            "exhaustive": false,
            "enumerated_subspace": spec.enumerated.map(|(count, _)| json!({"cases": count(), "completed": first_violation.is_none() && evaluations as usize >= count(), "note": "the enumerated sub-space is finite and was covered completely when 'completed' is true; the remaining evaluations are seeded exploration"})),
            "distinct_signatures_all_runs": all_sigs.len(),
            "runs_per_hour": runs_per_hour,
            "simulated_seconds": virt_us as f64 / 1e6,
            "network_events_processed": net_events,
            "faults_fired": faults,
            "probes": probes,
            "required_probes_missing": missing,
            "cross_observations_other_properties": cross,
            "panics_observed": panics,
            "determinism_self_checks": determinism_checked,
            "known_findings_hit": known_hits.values().map(|(k, c, _)| json!({"rule": k.rule, "what": k.what, "runs": c})).collect::<Vec<_>>(),
            "components": {
                "real": ["consensus (core, proposer, synchronizer, helper, aggregator, mempool driver)", "mempool (batch maker, quorum waiter, processor, synchronizer, helper)", "store (RocksDB on tmpfs)", "crypto (ed25519-dalek)", "network senders/receiver + tokio-util length-delimited codec", "node.rs wiring + JSON config files", "tokio runtime (current_thread), timers, channels"],
                "stubbed": ["TCP sockets (in-memory transport with seeded latency and faults)", "OS wall clock (virtual)", "OS entropy (seeded)", "benchmark client (harness clients speak the same framing)"],
                "not_run": ["node/src/main.rs CLI", "benchmark/ python scripts"]
            },
            "replay": replay_path,
        },
        "assumptions": spec.assumptions,
        "wall_s": wall,
        "violations": violations,
    });
    let mut evidence = evidence;
    evidence["coverage"]["build"] = json!(if cfg!(feature = "bench") { "benchmark feature (mempool/benchmark + consensus/benchmark)" } else { "default features" });
    let ev_dir = format!("{}/evidence", cfg.out_dir);
    let _ = std::fs::create_dir_all(&ev_dir);
    // A check that covers two build configurations runs the benchmark build first and merges
    // its evidence into the final file.
    if let Ok(merge) = std::env::var("HSIM_MERGE") {
        match std::fs::read(&merge).ok().and_then(|d| serde_json::from_slice::<serde_json::Value>(&d).ok()) {
            Some(other) => {
                let add = |a: &serde_json::Value, b: &serde_json::Value| json!(a.as_f64().unwrap_or(0.0) + b.as_f64().unwrap_or(0.0));
                let ev = evidence["coverage"]["evaluations"].as_u64().unwrap_or(0) + other["coverage"]["evaluations"].as_u64().unwrap_or(0);
                let dn = evidence["coverage"]["distinct_nontrivial"].as_u64().unwrap_or(0) + other["coverage"]["distinct_nontrivial"].as_u64().unwrap_or(0);
                evidence["coverage"]["evaluations_default_build"] = evidence["coverage"]["evaluations"].clone();
                evidence["coverage"]["evaluations"] = json!(ev);
                evidence["coverage"]["distinct_nontrivial"] = json!(dn);
                evidence["wall_s"] = add(&evidence["wall_s"], &other["wall_s"]);
                evidence["violations"] = json!(evidence["violations"].as_i64().unwrap_or(0) + other["violations"].as_i64().unwrap_or(0));
                evidence["coverage"]["benchmark_build"] = other["coverage"].clone();
                let _ = std::fs::remove_file(&merge);
            }
            None => {
                println!("HARNESS-ERROR: cannot merge evidence of the benchmark build from {}", merge);
                if exit == 0 {
                    exit = 2;
                }
            }
        }
    }
    let stem = std::env::var("HSIM_EVIDENCE_NAME").unwrap_or_else(|_| spec.id.to_string());
    let ev_path = format!("{}/{}.json", ev_dir, stem);
    if let Err(e) = std::fs::write(&ev_path, serde_json::to_string_pretty(&evidence).unwrap()) {
        println!("HARNESS-ERROR: cannot write evidence {}: {}", ev_path, e);
        if exit == 0 {
            exit = 2;
        }
    }
    println!(
        "hsim: property={} runs={} nontrivial_distinct={} virtual_s={:.1} wall_s={:.1} runs_per_hour={:.0} exit={}",
        spec.id,
        evaluations,
        nontrivial_sigs.len(),
        virt_us as f64 / 1e6,
        wall,
        runs_per_hour,
        exit
    );
    exit
}

#[derive(serde::Serialize, serde::Deserialize)]
pub struct ReplayFile {
    pub property: String,
    pub rule: String,
    pub detail: String,
    pub original_seed: u64,
    pub log_hash: u64,
    pub minimised: bool,
    pub scenario: Scenario,
    pub trace_tail: Vec<String>,
}

fn confirm_minimise_replay(cfg: &BatchCfg, spec: &PropSpec, sc: &Scenario, v: &Violation, rep: &RunReport) -> Result<String, String> {
    // 1. confirm: identical hash and same violation class on re-execution.
    let again = crate::runner::run_scenario(sc);
    if again.log_hash != rep.log_hash {
        return Err(format!("re-execution of seed {} diverged ({} vs {})", sc.seed, again.log_hash, rep.log_hash));
    }
    if !shows(&again, &v.prop, &v.rule) {
        return Err(format!("re-execution of seed {} does not show {}.{}", sc.seed, v.prop, v.rule));
    }
    // 2. minimise.
    let (min_sc, min_rep) = minimise(sc, &v.prop, &v.rule, again);
    // One more execution of the minimised scenario with the readable event trace switched on.
    crate::obs::KEEP_TRACE.store(true, Ordering::SeqCst);
    let traced = crate::runner::run_scenario(&min_sc);
    crate::obs::KEEP_TRACE.store(false, Ordering::SeqCst);
    let mv = min_rep.violations.iter().find(|x| x.prop == v.prop && x.rule == v.rule).cloned().unwrap_or_else(|| v.clone());
    // 3. write the replay file.
    let dir = format!("{}/replays", cfg.out_dir);
    std::fs::create_dir_all(&dir).map_err(|e| e.to_string())?;
    let path = format!("{}/{}-{}{}-{}.json", dir, spec.id, if cfg!(feature = "bench") { "bench-" } else { "" }, sc.seed, v.rule);
    let rf = ReplayFile {
        property: v.prop.clone(),
        rule: v.rule.clone(),
        detail: mv.detail.clone(),
        original_seed: sc.seed,
        log_hash: min_rep.log_hash,
        minimised: true,
        scenario: min_sc,
        trace_tail: if traced.trace_tail.is_empty() { min_rep.violations.iter().map(|x| format!("seq={} t_us={} {}.{} node={:?}: {}", x.seq, x.t_us, x.prop, x.rule, x.node, x.detail)).collect() } else { traced.trace_tail.clone() },
    };
    std::fs::write(&path, serde_json::to_string_pretty(&rf).unwrap()).map_err(|e| e.to_string())?;
    // 4. replay in a fresh process.
    let exe = std::env::current_exe().map_err(|e| e.to_string())?;
    let out = std::process::Command::new(exe).arg("replay").arg(&path).output().map_err(|e| e.to_string())?;
    let stdout = String::from_utf8_lossy(&out.stdout);
    if out.status.code() != Some(1) || !stdout.contains("REPLAY-REPRODUCED") {
        return Err(format!("fresh-process replay of {} did not reproduce (exit {:?}): {}", path, out.status.code(), stdout.lines().last().unwrap_or("")));
    }
    Ok(path)
}

pub fn replay(path: &str) -> i32 {
    let data = match std::fs::read(path) {
        Ok(d) => d,
        Err(e) => {
            println!("HARNESS-ERROR: cannot read {}: {}", path, e);
            return 2;
        }
    };
    let rf: ReplayFile = match serde_json::from_slice(&data) {
        Ok(r) => r,
        Err(e) => {
            println!("HARNESS-ERROR: cannot parse {}: {}", path, e);
            return 2;
        }
    };
    let rep = crate::runner::run_scenario(&rf.scenario);
    for v in &rep.violations {
        println!("violation: {} [{}] node={:?} seq={} t_us={}: {}", v.prop, v.rule, v.node, v.seq, v.t_us, v.detail);
    }
    for p in &rep.panics {
        println!("panic: {}", p);
    }
    if shows(&rep, &rf.property, &rf.rule) {
        if rep.log_hash == rf.log_hash {
            println!("REPLAY-REPRODUCED property={} rule={} log_hash={} (identical)", rf.property, rf.rule, rep.log_hash);
        } else {
            println!("REPLAY-REPRODUCED property={} rule={} log_hash={} (recorded {}; code under test differs from the recording)", rf.property, rf.rule, rep.log_hash, rf.log_hash);
        }
        println!("VIOLATION property={} replay={}", rf.property, path);
        1
    } else {
        println!("REPLAY-CLEAN property={} rule={} not shown (log_hash {} recorded {})", rf.property, rf.rule, rep.log_hash, rf.log_hash);
        0
    }
}

/// Delta debugging over the fault rules, scripted events, slow-leader rounds and clock jumps,
/// then scalar simplifications; a candidate is kept only if the SAME rule of the SAME property
/// still fires.
fn minimise(sc: &Scenario, prop: &str, rule: &str, first: RunReport) -> (Scenario, RunReport) {
    let t0 = Instant::now();
    let mut budget = 120usize;
    let mut best = sc.clone();
    let mut best_rep = first;
    let mut try_candidate = |cand: Scenario, best: &mut Scenario, best_rep: &mut RunReport, budget: &mut usize| -> bool {
        if *budget == 0 || t0.elapsed().as_secs() > 90 {
            return false;
        }
        *budget -= 1;
        let rep = crate::runner::run_scenario(&cand);
        if rep.harness_error.is_none() && shows(&rep, prop, rule) {
            *best = cand;
            *best_rep = rep;
            true
        } else {
            false
        }
    };

    // Generic list shrinker: `get` extracts the list length, `cut` removes [a, b).
    fn shrink_list(
        best: &mut Scenario,
        best_rep: &mut RunReport,
        budget: &mut usize,
        len: &dyn Fn(&Scenario) -> usize,
        cut: &dyn Fn(&mut Scenario, usize, usize),
        try_candidate: &mut dyn FnMut(Scenario, &mut Scenario, &mut RunReport, &mut usize) -> bool,
    ) {
        let mut chunk = len(best).max(1);
        while chunk >= 1 && len(best) > 0 {
            let mut i = 0;
            let mut progressed = false;
            while i < len(best) {
                let hi = (i + chunk).min(len(best));
                let mut cand = best.clone();
                cut(&mut cand, i, hi);
                if try_candidate(cand, best, best_rep, budget) {
                    progressed = true;
                } else {
                    i = hi;
                }
                if *budget == 0 {
                    return;
                }
            }
            if chunk == 1 && !progressed {
                break;
            }
            chunk = if chunk == 1 { if progressed { 1 } else { 0 } } else { chunk / 2 };
            if chunk == 0 {
                break;
            }
        }
    }

    shrink_list(&mut best, &mut best_rep, &mut budget, &|s| s.net.rules.len(), &|s, a, b| { s.net.rules.drain(a..b); }, &mut try_candidate);
    shrink_list(
        &mut best,
        &mut best_rep,
        &mut budget,
        &|s| s.events.iter().filter(|e| !matches!(e.kind, EventKind::Boot { .. })).count(),
        &|s, a, b| {
            let idx: Vec<usize> = s.events.iter().enumerate().filter(|(_, e)| !matches!(e.kind, EventKind::Boot { .. })).map(|(i, _)| i).collect();
            let remove: BTreeSet<usize> = idx[a..b].iter().cloned().collect();
            let mut k = 0;
            s.events.retain(|_| {
                let keep = !remove.contains(&k);
                k += 1;
                keep
            });
        },
        &mut try_candidate,
    );
    shrink_list(
        &mut best,
        &mut best_rep,
        &mut budget,
        &|s| s.mute.as_ref().map_or(0, |m| m.rounds.len()),
        &|s, a, b| {
            if let Some(m) = s.mute.as_mut() {
                m.rounds.drain(a..b);
            }
        },
        &mut try_candidate,
    );
    shrink_list(&mut best, &mut best_rep, &mut budget, &|s| s.net.clock_jumps.len(), &|s, a, b| { s.net.clock_jumps.drain(a..b); }, &mut try_candidate);

    shrink_list(&mut best, &mut best_rep, &mut budget, &|s| s.net.breaks.len(), &|s, a, b| { s.net.breaks.drain(a..b); }, &mut try_candidate);
    // World-specific scripts.
    match best.world.as_str() {
        "puppet" => {
            // Shortest prefix of the step policy that still shows the violation.
            let steps = |s: &Scenario| s.script.get("steps").and_then(|x| x.as_u64()).unwrap_or(0);
            let (mut lo, mut hi) = (1u64, steps(&best));
            while lo < hi && budget > 0 {
                let mid = (lo + hi) / 2;
                let mut cand = best.clone();
                cand.script["steps"] = serde_json::json!(mid);
                if try_candidate(cand, &mut best, &mut best_rep, &mut budget) {
                    hi = mid;
                } else {
                    lo = mid + 1;
                }
            }
            for knob in ["p_duplicate", "p_stale", "p_payload", "p_sync_probe", "p_equivocate", "p_unsafe", "p_timeout_episode", "p_invalid"] {
                let mut cand = best.clone();
                if cand.script.get(knob).and_then(|x| x.as_f64()).unwrap_or(0.0) > 0.0 {
                    cand.script[knob] = serde_json::json!(0.0);
                    try_candidate(cand, &mut best, &mut best_rep, &mut budget);
                }
            }
        }
        "rsender" => {
            shrink_list(
                &mut best,
                &mut best_rep,
                &mut budget,
                &|s| s.script.get("ops").and_then(|x| x.as_array()).map_or(0, |a| a.len()),
                &|s, a, b| {
                    if let Some(arr) = s.script.get_mut("ops").and_then(|x| x.as_array_mut()) {
                        arr.drain(a..b);
                    }
                },
                &mut try_candidate,
            );
        }
        "store" => {
            let nclients = best.script.get("clients").and_then(|x| x.as_array()).map_or(0, |a| a.len());
            for c in (0..nclients).rev() {
                shrink_list(
                    &mut best,
                    &mut best_rep,
                    &mut budget,
                    &|s| s.script["clients"].get(c).and_then(|x| x.as_array()).map_or(0, |a| a.len()),
                    &|s, a, b| {
                        if let Some(arr) = s.script["clients"].get_mut(c).and_then(|x| x.as_array_mut()) {
                            arr.drain(a..b);
                        }
                    },
                    &mut try_candidate,
                );
            }
        }
        _ => {}
    }

    // Scalar simplifications.
    let mut cand = best.clone();
    cand.net.short_write_prob = 0.0;
    cand.net.pending_write_prob = 0.0;
    cand.net.split_read_prob = 0.0;
    try_candidate(cand, &mut best, &mut best_rep, &mut budget);
    let mut cand = best.clone();
    cand.net.spike_prob = 0.0;
    try_candidate(cand, &mut best, &mut best_rep, &mut budget);
    // Shorten the run to just after the violation.
    if let Some(v) = best_rep.violations.iter().find(|x| x.prop == prop && x.rule == rule) {
        let mut cand = best.clone();
        cand.duration_us = (v.t_us + 50_000).min(best.duration_us);
        if cand.duration_us < best.duration_us {
            try_candidate(cand, &mut best, &mut best_rep, &mut budget);
        }
    }
    (best, best_rep)
}

/// Triage helper: run `runs` scenarios of a property's generator, do not stop at violations,
/// and print every violation class of EVERY monitor with example seeds, plus probe totals.
pub fn survey(spec: &PropSpec, batch_seed: u64, runs: usize, thorough: bool, threads: usize) -> i32 {
    let next = AtomicUsize::new(0);
    let (tx, rx) = mpsc::channel::<(u64, RunReport)>();
    let mut classes: BTreeMap<String, (u64, Vec<u64>, String)> = BTreeMap::new();
    let mut probes: BTreeMap<String, u64> = BTreeMap::new();
    let mut faults: BTreeMap<String, u64> = BTreeMap::new();
    let mut panics: BTreeMap<String, (u64, u64)> = BTreeMap::new();
    let t0 = Instant::now();
    std::thread::scope(|s| {
        for _ in 0..threads {
            let tx = tx.clone();
            let next = &next;
            s.spawn(move || loop {
                let k = next.fetch_add(1, Ordering::SeqCst);
                if k >= runs {
                    break;
                }
                let sseed = scenario_seed(batch_seed, spec.id, k as u64);
                let sc = (spec.gen)(sseed, thorough);
                let rep = crate::runner::run_scenario(&sc);
                if tx.send((sseed, rep)).is_err() {
                    break;
                }
            });
        }
        drop(tx);
        for (seed, rep) in rx {
            for v in &rep.violations {
                let e = classes.entry(format!("{}.{}", v.prop, v.rule)).or_insert((0, Vec::new(), v.detail.clone()));
                e.0 += 1;
                if e.1.len() < 4 {
                    e.1.push(seed);
                }
            }
            for (p, c) in &rep.probes {
                *probes.entry(p.clone()).or_insert(0) += c;
            }
            for (p, c) in &rep.faults {
                *faults.entry(p.clone()).or_insert(0) += c;
            }
            for p in &rep.panics {
                let e = panics.entry(p.clone()).or_insert((0, seed));
                e.0 += 1;
            }
            if let Some(e) = &rep.harness_error {
                println!("harness error seed {}: {}", seed, e);
            }
        }
    });
    println!("survey {} runs={} wall={:.1}s", spec.id, runs, t0.elapsed().as_secs_f64());
    for (c, (n, seeds, d)) in &classes {
        println!("  VIOL {:40} x{:<5} seeds {:?}\n       e.g. {}", c, n, seeds, d);
    }
    for (p, (n, seed)) in &panics {
        println!("  PANIC x{} seed {}: {}", n, seed, p);
    }
    println!("  faults: {:?}", faults);
    println!("  probes: {:?}", probes);
    0
}

/// Determinism proof: `n` scenarios of a property's generator, each executed twice (on different
/// OS threads, interleaved with other runs); the event-log hashes must be identical.
pub fn determinism(spec: &PropSpec, batch_seed: u64, n: usize, threads: usize) -> i32 {
    let next = AtomicUsize::new(0);
    let (tx, rx) = mpsc::channel::<(u64, u64, u64)>();
    let t0 = Instant::now();
    let mut bad = 0;
    let mut total = 0;
    std::thread::scope(|s| {
        for _ in 0..threads {
            let tx = tx.clone();
            let next = &next;
            s.spawn(move || loop {
                let k = next.fetch_add(1, Ordering::SeqCst);
                if k >= n {
                    break;
                }
                let sseed = scenario_seed(batch_seed, spec.id, k as u64);
                let sc = match spec.enumerated.and_then(|(_, case)| case(k)) {
                    Some(sc) => sc,
                    None => (spec.gen)(sseed, false),
                };
                let a = crate::runner::run_scenario(&sc).log_hash;
                let b = crate::runner::run_scenario(&sc).log_hash;
                let _ = tx.send((sseed, a, b));
            });
        }
        drop(tx);
        for (seed, a, b) in rx {
            total += 1;
            if a != b {
                bad += 1;
                println!("DIVERGED property={} scenario_seed={} {} vs {}", spec.id, seed, a, b);
            }
        }
    });
    println!("determinism {} scenarios={} diverged={} threads={} wall={:.1}s", spec.id, total, bad, threads, t0.elapsed().as_secs_f64());
    if bad > 0 {
        2
    } else {
        0
    }
}
