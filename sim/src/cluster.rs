//! World W1: n - b real nodes booted through the shipped `Node::new`, the simulated network,
//! harness clients, a fault script, and (optionally) Byzantine authorities played by the harness.
use crate::adversary::Adversary;
use crate::config::{Committee as NodeCommittee, Export as _, Parameters as NodeParameters, Secret};
use crate::ident::Members;
use crate::net::{Net, NodeId, SVC_CONSENSUS, SVC_MEMPOOL, SVC_TX};
use crate::node::Node;
use crate::obs::{Observer, Violation};
use crate::rng::mix;
use crate::scenario::{EventKind, Scenario};
use consensus::{Committee as ConsensusCommittee, Parameters as ConsensusParameters};
use crypto::{generate_keypair, PublicKey, SecretKey};
use mempool::{Committee as MempoolCommittee, Parameters as MempoolParameters};
use rand::rngs::StdRng;
use rand::SeedableRng as _;
use std::collections::{BTreeMap, HashMap};
use std::sync::{Arc, Mutex};

#[derive(Clone, Debug, Default, serde::Serialize, serde::Deserialize)]
pub struct RunReport {
    pub violations: Vec<Violation>,
    pub probes: BTreeMap<String, u64>,
    pub faults: BTreeMap<String, u64>,
    pub log_hash: u64,
    pub sig_hash: u64,
    pub virt_us: u64,
    pub events: u64,
    pub conns: u64,
    pub panics: Vec<String>,
    pub harness_error: Option<String>,
    #[serde(default)]
    pub trace_tail: Vec<String>,
}

pub fn keypair(seed: u64, i: usize) -> (PublicKey, SecretKey) {
    let mut rng = StdRng::seed_from_u64(mix(&[seed, 100, i as u64]));
    generate_keypair(&mut rng)
}

pub const CLIENT_BASE: NodeId = 32;

pub struct Cluster {
    pub sc: Scenario,
    pub net: Net,
    pub obs: Arc<Mutex<Observer>>,
    pub names: Vec<PublicKey>,
    pub dir: String,
    client_conns: HashMap<(usize, usize), usize>,
    pub adversary: Option<Adversary>,
    pub hostile_conns: HashMap<(usize, usize, u8), usize>,
    /// A few recent frames per service (material for mutated hostile frames).
    pub recent_frames: HashMap<u8, Vec<Vec<u8>>>,
}

impl Cluster {
    pub fn new(sc: &Scenario, dir: &str) -> Self {
        let net = Net::new(sc.seed, sc.net.clone());
        network::simnet::install(Some(Arc::new(net.clone())));
        let names: Vec<PublicKey> = (0..sc.n).map(|i| keypair(sc.seed, i).0).collect();
        let members = Members::new(names.clone(), sc.stakes.clone());
        let honest: Vec<bool> = (0..sc.n).map(|i| sc.honest(i)).collect();
        let obs = Arc::new(Mutex::new(Observer::new(members.clone(), honest)));
        crate::monitors_batch::reset(sc.n);
        {
            let mut o = obs.lock().unwrap();
            o.ext.params = sc.params.clone();
            o.ext.bounds = sc.bounds.clone();
            o.ext.profile = sc.profile.clone();
            o.ext.seal_slack_us = 2 * sc.net.connect_lat_us.1 + 2 * sc.net.base_lat_us.1 + 20_000;
            for r in &sc.net.rules {
                if r.label == "crash" {
                    for i in 0..sc.n {
                        if r.src == crate::net::bit(i) {
                            o.ext.crashed[i] = Some(r.t0_us);
                        }
                    }
                }
            }
        }

        // Store-write tap: the path ends in "db-<i>".
        {
            let (net2, obs2) = (net.clone(), obs.clone());
            store::verif_tap::install(Some(Box::new(move |path: &str, key: &[u8], value: &[u8]| {
                let node: usize = path.rsplit("db-").next().and_then(|x| x.parse().ok()).unwrap_or(0);
                let seq = net2.next_seq();
                let t = net2.now_us();
                let kh = key.iter().take(8).fold(0u64, |a, b| (a << 8) | *b as u64);
                net2.fold_hash(&[3, node as u64, kh, value.len() as u64, seq]);
                obs2.lock().unwrap().on_store_write(node, key, value, seq, t);
            })));
        }

        let adversary = if sc.byz.is_empty() {
            None
        } else {
            for b in &sc.byz {
                for svc in [SVC_CONSENSUS, SVC_MEMPOOL, SVC_TX] {
                    net.h_listen(*b, svc);
                }
            }
            Some(Adversary::new(sc, net.clone(), members, names.clone()))
        };

        Cluster { sc: sc.clone(), net, obs, names, dir: dir.to_string(), client_conns: HashMap::new(), adversary, hostile_conns: HashMap::new(), recent_frames: HashMap::new() }
    }

    fn write_config(&self, i: usize) -> (String, String, String, String) {
        let sc = &self.sc;
        // Each node sees every peer under an address whose IP encodes the viewer; the insertion
        // order of the authorities differs per node.
        let mut order: Vec<usize> = (0..sc.n).collect();
        let mut r = crate::rng::Rng::new(mix(&[sc.seed, 200, i as u64]));
        r.shuffle(&mut order);
        let cons = ConsensusCommittee::new(
            order.iter().map(|&j| (self.names[j], sc.stakes[j], crate::net::addr(i, j, SVC_CONSENSUS))).collect(),
            1,
        );
        r.shuffle(&mut order);
        let memp = MempoolCommittee::new(
            order
                .iter()
                .map(|&j| (self.names[j], sc.stakes[j], crate::net::addr(i, j, SVC_TX), crate::net::addr(i, j, SVC_MEMPOOL)))
                .collect(),
            1,
        );
        let committee_file = format!("{}/committee-{}.json", self.dir, i);
        NodeCommittee { consensus: cons, mempool: memp }.write(&committee_file).expect("write committee");
        let (name, secret) = keypair(sc.seed, i);
        let key_file = format!("{}/key-{}.json", self.dir, i);
        Secret { name, secret }.write(&key_file).expect("write key");
        let p = &sc.params[i];
        let params_file = format!("{}/params-{}.json", self.dir, i);
        NodeParameters {
            consensus: ConsensusParameters { timeout_delay: p.timeout_delay, sync_retry_delay: p.sync_retry_delay },
            mempool: MempoolParameters {
                gc_depth: p.gc_depth,
                sync_retry_delay: p.sync_retry_delay,
                sync_retry_nodes: p.sync_retry_nodes,
                batch_size: p.batch_size,
                max_batch_delay: p.max_batch_delay,
            },
        }
        .write(&params_file)
        .expect("write parameters");
        let store_path = format!("{}/db-{}", self.dir, i);
        (committee_file, key_file, store_path, params_file)
    }

    /// Whether the puppet policy injected at least one invalid variant in this run.
    pub fn obs_invalid_injected(&self, o: &Observer) -> bool {
        o.probes.get("puppet.invalid-injected").cloned().unwrap_or(0) > 0
    }

    pub async fn boot(&mut self, i: usize) {
        let (c, k, s, p) = self.write_config(i);
        let node = Node::new(&c, &k, &s, Some(p)).await.expect("boot node");
        let mut rx = node.commit;
        let (net, obs) = (self.net.clone(), self.obs.clone());
        tokio::spawn(async move {
            while let Some(b) = rx.recv().await {
                let seq = net.next_seq();
                let t = net.now_us();
                net.fold_hash(&[4, i as u64, b.round, seq]);
                obs.lock().unwrap().on_commit(i, &b, seq, t);
            }
        });
        self.obs.lock().unwrap().probe("boot");
    }

    /// Transaction content: empty; 1..=8 bytes: the low bytes of the uid (the generator keeps
    /// them unique); 9 bytes and more: first byte, 8-byte uid, deterministic padding.
    pub fn tx_bytes(len: usize, first: u8, uid: u64) -> Vec<u8> {
        if len <= 8 {
            return uid.to_le_bytes()[..len].to_vec();
        }
        let mut v = Vec::with_capacity(len);
        v.push(first);
        v.extend_from_slice(&uid.to_be_bytes());
        let mut k = 0u64;
        while v.len() < len {
            k += 1;
            v.push((mix(&[uid, k]) & 0xff) as u8);
        }
        v
    }

    fn send_tx(&mut self, client: usize, node: usize, bytes: &[u8]) {
        let from = CLIENT_BASE + client;
        for attempt in 0..2 {
            let conn = match self.client_conns.get(&(client, node)) {
                Some(c) if self.net.conn_alive(*c) => *c,
                _ => match self.net.h_connect(from, node, SVC_TX) {
                    Ok(c) => {
                        self.client_conns.insert((client, node), c);
                        c
                    }
                    Err(_) => {
                        self.obs.lock().unwrap().probe("tx.connect-refused");
                        return;
                    }
                },
            };
            match self.net.h_send_frame(conn, true, bytes) {
                Ok(()) => return,
                Err(_) => {
                    self.client_conns.remove(&(client, node));
                    if attempt == 1 {
                        self.obs.lock().unwrap().probe("tx.send-failed");
                    }
                }
            }
        }
    }

    async fn handle(&mut self, idx: usize) {
        let ev = self.sc.events[idx].clone();
        match ev.kind {
            EventKind::Boot { node } => self.boot(node).await,
            EventKind::Tx { client, node, len, first, uid } => {
                let bytes = Self::tx_bytes(len, first, uid);
                self.send_tx(client, node, &bytes);
            }
            EventKind::ResetConn { src, dst, svc_mask, pick } => {
                let _ = self.net.reset_matching(src, dst, svc_mask, pick);
            }
            EventKind::AdvTick => {
                if let Some(a) = self.adversary.as_mut() {
                    a.on_tick();
                }
            }
            EventKind::Hostile { from, node, svc, gen } => crate::hostile::inject(self, from, node, svc, gen),
            EventKind::ServiceProbe { node } => crate::hostile::service_probe(self, node),
            EventKind::Step { .. } => {}
        }
    }

    /// Content-triggered slow-leader fault (see `MuteCfg`).
    fn arm_mutes(&mut self, new_rounds: &[u64]) {
        let mute = match &self.sc.mute {
            Some(m) => m.clone(),
            None => return,
        };
        for r in new_rounds {
            let target = r + 1;
            if !mute.rounds.contains(&target) {
                continue;
            }
            let members = self.obs.lock().unwrap().members.clone();
            let leader = members.leader_index(target);
            if !self.sc.honest(leader) {
                continue;
            }
            let mut dst: u64 = (0..self.sc.n).filter(|j| *j != leader).map(crate::net::bit).sum();
            if crate::rng::unit(&[self.sc.seed, 300, target]) < mute.partial_prob {
                let others: Vec<usize> = (0..self.sc.n).filter(|j| *j != leader).collect();
                let spared = others[(mix(&[self.sc.seed, 301, target]) % others.len() as u64) as usize];
                dst &= !crate::net::bit(spared);
                self.obs.lock().unwrap().probe("fault.mute-partial");
            }
            let now = self.net.now_us();
            self.net.add_rule(crate::net::Rule {
                t0_us: now,
                t1_us: now + mute.len_us,
                src: crate::net::bit(leader),
                dst,
                bidir: false,
                svc_mask: 1 << SVC_CONSENSUS,
                kind: crate::net::RuleKind::Stall,
                reply_only: false,
                label: "slow-leader".into(),
            });
        }
    }

    pub async fn run(mut self) -> RunReport {
        for (i, e) in self.sc.events.iter().enumerate() {
            self.net.schedule_custom(e.t_us, i as u64);
        }
        let end = self.sc.duration_us;
        self.arm_mutes(&[0]);
        loop {
            let customs = self.net.pump(end).await;
            for c in customs {
                self.handle(c as usize).await;
            }
            let tap = self.net.drain_tap();
            if !tap.is_empty() {
                let mut o = self.obs.lock().unwrap();
                for ev in &tap {
                    o.on_tap(ev);
                }
                let new_rounds = std::mem::take(&mut o.new_rounds);
                drop(o);
                if self.sc.bounds.crash_first_proposer {
                    if let Some(l) = self.sc.bounds.lagger {
                        for ev in &tap {
                            if let crate::net::TapKind::Frame { phase: crate::net::Phase::Delivered, data, .. } = &ev.kind {
                                if ev.to_listener && ev.svc == SVC_CONSENSUS && ev.dst() == l && ev.t_us >= self.sc.bounds.heal_us && ev.src() < self.sc.n && ev.src() != l {
                                    if let Some(consensus::ConsensusMessage::Propose(b)) = crate::obs::safe_deserialize::<consensus::ConsensusMessage>(data) {
                                        if b.author == self.names[ev.src()] {
                                            let v = ev.src();
                                            let now = self.net.now_us();
                                            let all: u64 = (0..self.sc.n).map(crate::net::bit).sum::<u64>() | (0xffff_ffffu64 << 32);
                                            self.net.add_rule(crate::net::Rule { t0_us: now, t1_us: crate::net::FOREVER, src: crate::net::bit(v), dst: all & !crate::net::bit(v), bidir: true, svc_mask: 7, kind: crate::net::RuleKind::Block, reply_only: false, label: "crash".into() });
                                            self.obs.lock().unwrap().ext.crashed[v] = Some(now);
                                            self.sc.bounds.crash_first_proposer = false;
                                            break;
                                        }
                                    }
                                }
                            }
                        }
                    }
                }
                if self.sc.profile == "C15" {
                    for ev in &tap {
                        if let crate::net::TapKind::Frame { phase: crate::net::Phase::Written, data, .. } = &ev.kind {
                            if ev.to_listener && ev.src() < self.sc.n && data.len() < 4096 {
                                let v = self.recent_frames.entry(ev.svc).or_default();
                                if v.len() < 24 {
                                    v.push(data.to_vec());
                                } else {
                                    let i = (ev.seq % 24) as usize;
                                    v[i] = data.to_vec();
                                }
                            }
                        }
                    }
                }
                self.arm_mutes(&new_rounds);
                if let Some(a) = self.adversary.as_mut() {
                    for ev in &tap {
                        a.on_tap(ev);
                    }
                }
            }
            if self.net.now_us() >= end {
                break;
            }
        }
        // Late tap entries produced by the last reactions.
        let tap = self.net.drain_tap();
        let mut o = self.obs.lock().unwrap();
        for ev in &tap {
            o.on_tap(ev);
        }
        o.finish(end);
        let (log_hash, events, faults, conns) = self.net.stats();
        RunReport {
            violations: o.violations.clone(),
            probes: o.probes.clone(),
            faults,
            log_hash,
            sig_hash: o.sig_hash,
            virt_us: self.net.now_us(),
            events,
            conns: conns as u64,
            panics: Vec::new(),
            harness_error: None,
            trace_tail: o.recent.iter().cloned().collect(),
        }
    }
}
