//! OS entropy seam. std's `RandomState` obtains its keys through the libc symbol `getrandom`,
//! which it resolves weakly at run time; defining that symbol here (exported, `-rdynamic`)
//! makes every std `HashMap`/`HashSet` iteration order a function of the run seed.
//! Threads that have not been given a seed (RocksDB background threads, the main thread)
//! fall through to the real system call.
use std::cell::Cell;

thread_local! {
    static SEED: Cell<Option<(u64, u64)>> = const { Cell::new(None) };
}

/// Give the current thread a deterministic entropy stream (or restore the OS one).
pub fn set_thread_seed(seed: Option<u64>) {
    SEED.with(|s| s.set(seed.map(|x| (x, 0))));
}

/// Number of times the deterministic stream was consulted on this thread (self-check probe).
pub fn draws() -> u64 {
    SEED.with(|s| s.get().map(|(_, c)| c).unwrap_or(0))
}

#[no_mangle]
pub unsafe extern "C" fn getrandom(buf: *mut libc::c_void, buflen: libc::size_t, flags: libc::c_uint) -> libc::ssize_t {
    let state = SEED.try_with(|s| s.get()).ok().flatten();
    match state {
        Some((seed, counter)) => {
            let out = std::slice::from_raw_parts_mut(buf as *mut u8, buflen);
            let mut x = crate::rng::mix(&[seed, counter, 0x6765_7472_616e_646f]);
            for chunk in out.chunks_mut(8) {
                x = crate::rng::splitmix(x);
                let bytes = x.to_le_bytes();
                chunk.copy_from_slice(&bytes[..chunk.len()]);
            }
            let _ = SEED.try_with(|s| s.set(Some((seed, counter + 1))));
            buflen as libc::ssize_t
        }
        None => libc::syscall(libc::SYS_getrandom, buf, buflen, flags) as libc::ssize_t,
    }
}
