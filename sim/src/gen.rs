//! Scenario generators: a scenario seed expands, by a pure function, into a scenario value.
use crate::net::NetCfg;
use crate::rng::Rng;
use crate::scenario::*;

pub fn base(seed: u64) -> Scenario {
    let mut r = Rng::new(seed);
    let n = 4;
    let mut events = Vec::new();
    for i in 0..n {
        events.push(TimedEvent { t_us: 0, kind: EventKind::Boot { node: i } });
    }
    let mut uid = 1;
    for k in 0..200u64 {
        let t = 50_000 + k * 20_000 + r.range(0, 10_000);
        events.push(TimedEvent { t_us: t, kind: EventKind::Tx { client: (k % 2) as usize, node: r.below(n), len: 64, first: 1, uid } });
        uid += 1;
    }
    Scenario {
        world: "cluster".into(),
        profile: "base".into(),
        seed,
        n,
        stakes: vec![1; n],
        byz: vec![],
        params: vec![NodeParams::default(); n],
        duration_us: 5_000_000,
        net: NetCfg::default(),
        events,
        adv: AdvCfg::default(),
        bounds: Bounds::default(),
        tokio_event_interval: 61,
        tokio_global_queue_interval: 31,
        script: serde_json::Value::Null,
    }
}
