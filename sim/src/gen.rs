//! Scenario generators: a scenario seed expands, by a pure function, into a scenario value.
//! Every run draws its own configuration (swarm testing): committee, stakes, parameters,
//! network shape, enabled fault kinds and their rates, workload.
use crate::net::{bit, NetCfg, Rule, RuleKind, FOREVER, SVC_CONSENSUS, SVC_MEMPOOL, SVC_TX};
use crate::rng::Rng;
use crate::scenario::*;

pub const ALL_SVC: u8 = (1 << SVC_CONSENSUS) | (1 << SVC_MEMPOOL) | (1 << SVC_TX);
pub const NODE_SVC: u8 = (1 << SVC_CONSENSUS) | (1 << SVC_MEMPOOL);

pub struct Builder {
    pub r: Rng,
    pub sc: Scenario,
    pub uid: u64,
    /// Round timeout of node 0 in microseconds (the time scale of the scenario).
    pub t_us: u64,
}

impl Builder {
    pub fn new(profile: &str, seed: u64) -> Self {
        let r = Rng::new(seed);
        let sc = Scenario {
            world: "cluster".into(),
            profile: profile.into(),
            seed,
            n: 4,
            stakes: vec![1; 4],
            byz: vec![],
            params: vec![NodeParams::default(); 4],
            duration_us: 5_000_000,
            net: NetCfg::default(),
            events: Vec::new(),
            adv: AdvCfg::default(),
            bounds: Bounds::default(),
            mute: None,
            tokio_event_interval: 61,
            tokio_global_queue_interval: 31,
            script: serde_json::Value::Null,
        };
        Builder { r, sc, uid: 1, t_us: 1_000_000 }
    }

    pub fn all_nodes(&self) -> u64 {
        (0..self.sc.n).map(bit).sum()
    }

    /// Committee size and stakes. `style`: 0 equal, 1 mildly skewed, 2 one heavy (below a third).
    pub fn committee(&mut self, sizes: &[usize], allow_skew: bool) {
        let n = *self.r.pick(sizes);
        self.sc.n = n;
        let style = if allow_skew { self.r.below(4) } else { 0 };
        self.sc.stakes = match style {
            1 => (0..n).map(|_| self.r.range(1, 3) as u32).collect(),
            2 => {
                // One heavier member, still at most a third of the total minus one.
                let mut s = vec![2u32; n];
                let h = self.r.below(n);
                s[h] = 3;
                s
            }
            _ => vec![1; n],
        };
    }

    /// Largest total stake of a set of authorities that can be faulty: f with total >= 3f + 1.
    pub fn max_faulty_stake(&self) -> u64 {
        let total: u64 = self.sc.stakes.iter().map(|x| *x as u64).sum();
        (total - 1) / 3
    }

    /// A random set of authorities with total stake at most `budget`.
    pub fn faulty_set(&mut self, budget: u64, max_members: usize) -> Vec<usize> {
        let mut order: Vec<usize> = (0..self.sc.n).collect();
        self.r.shuffle(&mut order);
        let mut left = budget;
        let mut out = Vec::new();
        for i in order {
            let s = self.sc.stakes[i] as u64;
            if s <= left && out.len() < max_members {
                out.push(i);
                left -= s;
            }
        }
        out
    }

    pub fn params(&mut self, timeout_ms: (u64, u64), skew: bool) {
        let t = self.r.log_range(timeout_ms.0, timeout_ms.1);
        self.t_us = t * 1_000;
        let base = NodeParams {
            timeout_delay: t,
            sync_retry_delay: self.r.range(1_000, 5_000),
            gc_depth: self.r.range(5, 50),
            batch_size: self.r.log_range(100, 4_000) as usize,
            max_batch_delay: self.r.log_range(10, 200),
            sync_retry_nodes: self.r.range(1, (self.sc.n - 1) as u64) as usize,
        };
        self.sc.params = (0..self.sc.n)
            .map(|_| {
                let mut p = base.clone();
                if skew {
                    // timer-skew fault: every node has its own idea of the round timeout.
                    p.timeout_delay = (t as f64 * (0.7 + 0.8 * (self.r.next() % 1000) as f64 / 1000.0)) as u64;
                    p.max_batch_delay = self.r.log_range(10, 200);
                }
                p
            })
            .collect();
        if skew {
            self.sc.net.rules.len(); // no-op; skew is accounted by the batch as a fault kind
        }
    }

    /// Network latency shape relative to the round timeout.
    pub fn latency(&mut self, max_frac_of_timeout: f64) {
        let cap = (self.t_us as f64 * max_frac_of_timeout) as u64;
        let lo = self.r.log_range(500, 5_000).min(cap.max(500));
        let hi = lo + self.r.log_range(100, cap.max(200));
        self.sc.net.base_lat_us = (lo, hi.min(cap.max(lo + 100)));
        self.sc.net.jitter_us = self.r.log_range(100, (cap / 4).max(200));
        self.sc.net.connect_lat_us = (200, self.r.log_range(300, cap.max(400)));
    }

    pub fn boots(&mut self, stagger_us: u64) {
        for i in 0..self.sc.n {
            if self.sc.byz.contains(&i) {
                continue;
            }
            let t = if stagger_us == 0 { 0 } else { self.r.range(0, stagger_us) };
            self.sc.events.push(TimedEvent { t_us: t, kind: EventKind::Boot { node: i } });
        }
    }

    /// Client load: `count` transactions between t0 and t1 to random honest nodes.
    pub fn load(&mut self, count: usize, t0: u64, t1: u64, len: (u64, u64), clients: usize) {
        let honest: Vec<usize> = (0..self.sc.n).filter(|i| self.sc.honest(*i)).collect();
        for _ in 0..count {
            let t = self.r.range(t0, t1);
            let node = *self.r.pick(&honest);
            let l = self.r.log_range(len.0.max(1), len.1) as usize;
            let client = self.r.below(clients.max(1));
            self.sc.events.push(TimedEvent { t_us: t, kind: EventKind::Tx { client, node, len: l.max(9), first: 1 + (self.uid % 200) as u8, uid: self.uid } });
            self.uid += 1;
        }
    }

    pub fn spikes(&mut self, prob: f64, max_us: u64, until: u64) {
        self.sc.net.spike_prob = prob;
        self.sc.net.spike_us = max_us;
        self.sc.net.spike_until_us = until;
    }

    pub fn buggify_io(&mut self) {
        if self.r.chance(0.5) {
            self.sc.net.short_write_prob = *self.r.pick(&[0.01, 0.05, 0.2]);
        }
        if self.r.chance(0.5) {
            self.sc.net.pending_write_prob = *self.r.pick(&[0.01, 0.05, 0.2]);
        }
        if self.r.chance(0.5) {
            self.sc.net.split_read_prob = *self.r.pick(&[0.01, 0.05, 0.3]);
        }
        if self.r.chance(0.5) {
            self.sc.net.pending_read_prob = *self.r.pick(&[0.02, 0.1, 0.3]);
        }
    }

    pub fn mute(&mut self, density: f64, len_factor: (f64, f64), partial: f64, max_round: u64) {
        let mut rounds = Vec::new();
        let pattern = self.r.below(6);
        for r in 1..=max_round {
            let on = match pattern {
                0 => self.r.chance(density),
                1 => r % 3 == 1,                      // 1,4,7,..: certified blocks with gaps
                2 => r % 3 == 1 && r > 3,             // the same but after a normal start
                4 => r % 5 == 2 || r % 5 == 3,        // two slow leaders in a row (late QC, then late block)
                5 => r % 4 == 2 || (r % 8 == 3),      // singles and occasional pairs
                _ => self.r.chance(density) || (r > 2 && r % 5 == 0),
            };
            if on {
                rounds.push(r);
            }
        }
        let f = len_factor.0 + (len_factor.1 - len_factor.0) * (self.r.next() % 1000) as f64 / 1000.0;
        self.sc.mute = Some(MuteCfg { rounds, len_us: (self.t_us as f64 * f) as u64, partial_prob: partial });
    }

    pub fn partition(&mut self, t0: u64, t1: u64, side: u64, svc_mask: u8, label: &str) {
        let other = self.all_nodes() & !side;
        self.sc.net.rules.push(Rule { t0_us: t0, t1_us: t1, src: side, dst: other, bidir: true, svc_mask, kind: RuleKind::Block, reply_only: false, label: label.into() });
    }

    pub fn random_partitions(&mut self, k: usize) {
        for _ in 0..k {
            let t0 = self.r.range(self.t_us, self.sc.duration_us.saturating_sub(self.t_us).max(self.t_us + 1));
            let len = (self.t_us as f64 * (0.3 + 8.0 * (self.r.next() % 1000) as f64 / 1000.0)) as u64;
            let mut side = 0u64;
            if self.r.chance(0.4) {
                // An even split (both halves may believe they are a quorum if the arithmetic is off).
                let mut order: Vec<usize> = (0..self.sc.n).collect();
                self.r.shuffle(&mut order);
                for i in order.iter().take(self.sc.n / 2) {
                    side |= bit(*i);
                }
            } else {
                for i in 0..self.sc.n {
                    if self.r.chance(0.4) {
                        side |= bit(i);
                    }
                }
            }
            if side == 0 || side == self.all_nodes() {
                side = bit(self.r.below(self.sc.n));
            }
            self.partition(t0, t0 + len, side, NODE_SVC, "partition");
        }
    }

    /// Split brain: the honest nodes are cut into two arcs of the leader rotation (so that each
    /// side has consecutive leaders of its own and could commit if it believed it had a quorum),
    /// for many timeouts; Byzantine members stay connected to both sides.
    pub fn split_brain(&mut self) {
        let mut order: Vec<usize> = (0..self.sc.n).collect();
        let keys: Vec<_> = (0..self.sc.n).map(|i| crate::cluster::keypair(self.sc.seed, i).0).collect();
        order.sort_by_key(|i| keys[*i]);
        let honest: Vec<usize> = order.into_iter().filter(|i| !self.sc.byz.contains(i)).collect();
        let h = honest.len();
        if h < 2 {
            return;
        }
        let start = self.r.below(h);
        let cut = if self.r.chance(0.6) { h / 2 } else { self.r.range(1, (h - 1) as u64) as usize };
        let mut a = 0u64;
        let mut b = 0u64;
        for k in 0..h {
            let i = honest[(start + k) % h];
            if k < cut {
                a |= bit(i);
            } else {
                b |= bit(i);
            }
        }
        let t0 = self.r.range(self.t_us, (self.sc.duration_us / 3).max(self.t_us + 1));
        let len = self.t_us * self.r.range(6, 16);
        self.sc.net.rules.push(Rule { t0_us: t0, t1_us: t0 + len, src: a, dst: b, bidir: true, svc_mask: NODE_SVC, kind: RuleKind::Block, reply_only: false, label: "split-brain".into() });
    }

    pub fn crash(&mut self, node: usize, t0: u64) {
        let all = self.all_nodes() | (0xffff_ffffu64 << 32);
        self.sc.net.rules.push(Rule {
            t0_us: t0,
            t1_us: FOREVER,
            src: bit(node),
            dst: all & !bit(node),
            bidir: true,
            svc_mask: ALL_SVC,
            kind: RuleKind::Block,
            reply_only: false,
            label: "crash".into(),
        });
    }

    pub fn stall_node(&mut self, node: usize, t0: u64, t1: u64, outgoing: bool, incoming: bool) {
        let others = self.all_nodes() & !bit(node);
        if outgoing {
            self.sc.net.rules.push(Rule { t0_us: t0, t1_us: t1, src: bit(node), dst: others, bidir: false, svc_mask: NODE_SVC, kind: RuleKind::Stall, reply_only: false, label: "stall".into() });
        }
        if incoming {
            self.sc.net.rules.push(Rule { t0_us: t0, t1_us: t1, src: others, dst: bit(node), bidir: false, svc_mask: NODE_SVC, kind: RuleKind::Stall, reply_only: false, label: "stall".into() });
        }
    }

    pub fn random_resets(&mut self, k: usize, svc_mask: u8) {
        for _ in 0..k {
            let t = self.r.range(self.t_us / 2, self.sc.duration_us);
            let a = bit(self.r.below(self.sc.n));
            let pick = self.r.next();
            self.sc.events.push(TimedEvent { t_us: t, kind: EventKind::ResetConn { src: a, dst: self.all_nodes(), svc_mask, pick } });
        }
    }

    pub fn clock_jumps(&mut self, k: usize) {
        for _ in 0..k {
            let t = self.r.range(0, self.sc.duration_us);
            let d = if self.r.chance(0.7) { self.r.range(1_000, 120_000) as i64 } else { -(self.r.range(100, 20_000) as i64) };
            self.sc.net.clock_jumps.push((t, d));
        }
    }

    pub fn tokio_knobs(&mut self) {
        self.sc.tokio_event_interval = *self.r.pick(&[1u32, 7, 31, 61, 127]);
        self.sc.tokio_global_queue_interval = *self.r.pick(&[1u32, 3, 31, 61]);
    }

    pub fn finish(mut self) -> Scenario {
        self.sc.events.sort_by_key(|e| e.t_us);
        self.sc
    }
}

/// The general safety scenario: view changes, partitions, crashes, resets, slow nodes.
/// `bias` tunes it towards the shapes a property cares about.
pub fn chaos(profile: &str, seed: u64, thorough: bool) -> Scenario {
    let mut b = Builder::new(profile, seed);
    let sizes: &[usize] = if thorough { &[4, 4, 5, 6, 7, 7, 10] } else { &[4, 4, 5, 6, 7] };
    b.committee(sizes, true);
    let skew = b.r.chance(0.3);
    b.params((300, 1_200), skew);
    b.latency(0.08);
    let rounds_t = b.r.range(15, if thorough { 60 } else { 35 });
    b.sc.duration_us = b.t_us * rounds_t;
    // Byzantine authorities within the stake budget f (played by the adversary module).
    let byz_profile = matches!(profile, "C01" | "C03" | "C05" | "C09" | "C19" | "C10");
    if byz_profile && b.r.chance(if profile == "C01" { 0.6 } else { 0.35 }) {
        let budget = b.max_faulty_stake();
        b.sc.byz = b.faulty_set(budget, 2);
        let mut lvl = |r: &mut Rng| *r.pick(&[0.0, 0.2, 0.5, 1.0]);
        b.sc.adv = AdvCfg {
            seed: b.r.next(),
            equivocate: lvl(&mut b.r),
            vote_all: lvl(&mut b.r),
            withhold: lvl(&mut b.r),
            stale_qc: lvl(&mut b.r),
            forge_qc_from_tapped: lvl(&mut b.r),
            replay: lvl(&mut b.r),
            silent: *b.r.pick(&[0.0, 0.1, 0.3]),
            low_timeouts: *b.r.pick(&[0.0, 0.5, 1.0, 1.0]),
            ack: *b.r.pick(&[0.0, 0.5, 1.0]),
        };
        let step = b.t_us / 2;
        let mut t = step;
        while t < b.sc.duration_us {
            b.sc.events.push(TimedEvent { t_us: t, kind: EventKind::AdvTick });
            t += step;
        }
    }
    if profile == "C01" && b.r.chance(0.3) {
        if b.sc.duration_us < b.t_us * 30 {
            b.sc.duration_us = b.t_us * 30;
        }
        b.split_brain();
    }
    let stagger = if b.r.chance(0.3) { b.t_us / 2 } else { 0 };
    b.boots(stagger);
    let dur = b.sc.duration_us;
    let txs = b.r.range(10, 80) as usize;
    b.load(txs, b.t_us / 4, dur - b.t_us, (16, 600), 3);
    // Swarm: each fault kind is on or off for the run.
    let force_mute = matches!(profile, "C02" | "C05" | "C10");
    if force_mute || b.r.chance(0.6) {
        let density = *b.r.pick(&[0.1, 0.2, 0.35]);
        let partial = *b.r.pick(&[0.0, 0.3, 0.6]);
        let span = if b.r.chance(0.5) { (1.02, 1.4) } else { (1.1, 2.5) };
        b.mute(density, span, partial, 400);
    }
    if b.r.chance(0.4) {
        let k = b.r.range(1, 3) as usize;
        b.random_partitions(k);
    }
    if b.r.chance(0.3) {
        // Crashes of any number of nodes are allowed for safety properties; mostly <= f.
        let budget = if b.r.chance(0.8) { b.max_faulty_stake() } else { b.max_faulty_stake() + 1 };
        let set = b.faulty_set(budget, 3);
        for i in set {
            let t = b.r.range(0, dur);
            b.crash(i, t);
        }
    }
    if b.r.chance(0.4) {
        let k = b.r.range(2, 15) as usize;
        b.random_resets(k, NODE_SVC);
    }
    if b.r.chance(0.3) {
        let k = b.r.range(1, 3);
        for _ in 0..k {
            let node = b.r.below(b.sc.n);
            let t0 = b.r.range(0, dur);
            let len = (b.t_us as f64 * (0.5 + 3.0 * (b.r.next() % 1000) as f64 / 1000.0)) as u64;
            let (o, i) = *b.r.pick(&[(true, true), (true, false), (false, true)]);
            b.stall_node(node, t0, t0 + len, o, i);
        }
    }
    if b.r.chance(0.3) {
        let p = *b.r.pick(&[0.005, 0.02, 0.05]);
        let m = b.t_us * 2;
        b.spikes(p, m, FOREVER);
    }
    if b.r.chance(0.3) {
        b.clock_jumps(2);
    }
    if b.r.chance(0.4) {
        b.buggify_io();
    }
    b.tokio_knobs();
    b.finish()
}

pub fn base(seed: u64) -> Scenario {
    let mut b = Builder::new("base", seed);
    b.params((1_000, 1_000), false);
    b.sc.net.base_lat_us = (2_000, 8_000);
    b.sc.duration_us = 5_000_000;
    b.boots(0);
    b.load(100, 50_000, 4_000_000, (64, 64), 2);
    b.finish()
}

pub fn for_prop(prop: &str, seed: u64, thorough: bool) -> Scenario {
    match prop {
        "base" => base(seed),
        _ => chaos(prop, seed, thorough),
    }
}

/// C12: the mempool dissemination path under ACK delays, mute peers, unequal stakes.
pub fn c12(seed: u64, thorough: bool) -> Scenario {
    let mut b = Builder::new("C12", seed);
    let sizes: &[usize] = if thorough { &[4, 5, 6, 7, 10] } else { &[4, 4, 5, 7] };
    b.committee(sizes, true);
    if b.r.chance(0.3) {
        // Strongly unequal stakes: one dominant member just below a third, several light ones.
        let n = b.sc.n;
        let mut s = vec![1u32; n];
        s[b.r.below(n)] = ((n as u32 - 1) / 2).max(1);
        b.sc.stakes = s;
    }
    b.params((400, 1_500), false);
    b.latency(0.05);
    for p in b.sc.params.iter_mut() {
        p.batch_size = *b.r.pick(&[64usize, 200, 1_000]);
        p.max_batch_delay = *b.r.pick(&[10u64, 40, 150]);
    }
    b.sc.duration_us = b.t_us * b.r.range(10, 25);
    b.boots(0);
    let dur = b.sc.duration_us;
    let txs = b.r.range(40, 200) as usize;
    b.load(txs, b.t_us / 4, dur - b.t_us, (16, 300), 3);
    let all = b.all_nodes();
    // mute-ack: the reply direction of some mempool links is held for a while (or for ever).
    let k = b.r.range(0, 4);
    for _ in 0..k {
        let j = b.r.below(b.sc.n);
        let t0 = b.r.range(0, dur);
        let t1 = if b.r.chance(0.3) { FOREVER } else { t0 + b.r.range(b.t_us / 10, 3 * b.t_us) };
        b.sc.net.rules.push(Rule { t0_us: t0, t1_us: t1, src: bit(j), dst: all & !bit(j), bidir: false, svc_mask: 1 << SVC_MEMPOOL, kind: RuleKind::Stall, reply_only: true, label: "mute-ack".into() });
    }
    // Slow or cut mempool links.
    if b.r.chance(0.5) {
        let k = b.r.range(1, 3);
        for _ in 0..k {
            let j = b.r.below(b.sc.n);
            let t0 = b.r.range(0, dur);
            let len = b.r.range(b.t_us / 5, 4 * b.t_us);
            let kind = if b.r.chance(0.5) { RuleKind::Block } else { RuleKind::Delay(b.r.range(10_000, 400_000)) };
            let label = if kind == RuleKind::Block { "mempool-cut" } else { "mempool-delay" };
            b.sc.net.rules.push(Rule { t0_us: t0, t1_us: t0 + len, src: bit(j), dst: all & !bit(j), bidir: true, svc_mask: 1 << SVC_MEMPOOL, kind, reply_only: false, label: label.into() });
        }
    }
    if b.r.chance(0.4) {
        let k = b.r.range(2, 12) as usize;
        b.random_resets(k, 1 << SVC_MEMPOOL);
    }
    if b.r.chance(0.3) {
        b.mute(0.15, (1.1, 2.0), 0.3, 300);
    }
    if b.r.chance(0.3) {
        b.buggify_io();
    }
    b.tokio_knobs();
    b.finish()
}

/// C11: batching under every transaction size and arrival timing, on a healthy network.
pub fn c11(seed: u64, thorough: bool) -> Scenario {
    let mut b = Builder::new("C11", seed);
    b.committee(&[4], false);
    b.params((1_000, 2_000), false);
    b.sc.net.base_lat_us = (500, 3_000);
    b.sc.net.jitter_us = 500;
    b.sc.net.connect_lat_us = (200, 1_000);
    for i in 0..b.sc.n {
        b.sc.params[i].batch_size = *b.r.pick(&[1usize, 9, 50, 200, 1_000]);
        b.sc.params[i].max_batch_delay = *b.r.pick(&[5u64, 20, 50, 100]);
    }
    b.sc.duration_us = if thorough { 6_000_000 } else { 3_000_000 };
    b.boots(0);
    let dur = b.sc.duration_us;
    // Load only on node 0 and 1 so that each keeps several client connections busy.
    let targets = [0usize, 1];
    let bench = cfg!(feature = "bench");
    let count = b.r.range(30, if thorough { 300 } else { 120 });
    let mut t = 100_000u64;
    let mut small1 = 0u64;
    b.uid = 1_000;
    for _ in 0..count {
        let node = *b.r.pick(&targets);
        let p = b.sc.params[node].clone();
        let bs = p.batch_size as u64;
        // Sizes around the interesting boundaries.
        let len = match b.r.below(10) {
            0 => 0,
            1 => 1,
            2 => 8,
            3 => 9,
            4 => bs.saturating_sub(1),
            5 => bs,
            6 => bs + 1,
            7 => bs * b.r.range(2, 3) + b.r.range(0, 7),
            _ => b.r.range(10, 120),
        } as usize;
        // Arrival relative to the seal timer: bursts, trickles, exactly one period apart.
        let gap = match b.r.below(5) {
            0 => 0,
            1 => b.r.range(1, 900),
            2 => p.max_batch_delay * 1_000,
            3 => p.max_batch_delay * 1_000 + b.r.range(0, 2) * 1_000 - 1_000,
            _ => b.r.range(1_000, 3 * p.max_batch_delay * 1_000),
        };
        t += gap;
        if t + 500_000 > dur {
            break;
        }
        // Empty transactions go to node 0 only and one-byte ones are unique, so that every batch
        // is attributable to its creator by content.
        let mut len = len;
        if len == 0 && node != 0 {
            len = 2;
        }
        let mut uid = b.uid;
        b.uid += 1;
        if len == 1 {
            small1 += 1;
            if small1 > 255 {
                len = 2;
            } else {
                uid = small1;
            }
        }
        // In the benchmark build the first byte 0 marks a "sample" transaction.
        let first = if bench && b.r.chance(0.4) { 0 } else { b.r.range(0, 255) as u8 };
        let client = b.r.below(3);
        b.sc.events.push(TimedEvent { t_us: t, kind: EventKind::Tx { client, node, len, first, uid } });
    }
    // A peer-side batch in a non-canonical encoding (trailing bytes) to one or two nodes: it
    // must be stored and announced under the hash of the bytes actually received.
    let k = b.r.range(1, 2);
    for q in 0..k {
        let node = b.r.below(b.sc.n);
        let t = b.r.range(300_000, dur - 2_500_000);
        b.sc.events.push(TimedEvent { t_us: t, kind: EventKind::Hostile { from: 40 + q as usize, node, svc: SVC_MEMPOOL, gen: (37u64 << 40) | q } });
    }
    b.tokio_knobs();
    b.finish()
}

/// C13: end to end without view changes; nodes that miss batch broadcasts must fetch them.
pub fn c13(seed: u64, thorough: bool) -> Scenario {
    let mut b = Builder::new("C13", seed);
    let sizes: &[usize] = if thorough { &[4, 5, 7] } else { &[4, 4, 5] };
    b.committee(sizes, false);
    b.params((2_000, 4_000), false);
    // Latencies of a few milliseconds to a few tens keep the number of rounds (the cost) moderate.
    let lo = b.r.range(4_000, 12_000);
    b.sc.net.base_lat_us = (lo, lo + b.r.range(500, 25_000));
    b.sc.net.jitter_us = b.r.range(0, 4_000);
    b.sc.net.connect_lat_us = (200, b.r.range(500, 10_000));
    let gc = *b.r.pick(&[5u64, 50, 10_000]);
    for p in b.sc.params.iter_mut() {
        p.sync_retry_delay = *b.r.pick(&[500u64, 1_000, 2_000]);
        p.gc_depth = gc;
    }
    let load_end = b.r.range(2_000_000, 6_000_000);
    b.boots(0);
    let txs = b.r.range(20, 120) as usize;
    b.load(txs, 200_000, load_end, (16, 400), 3);
    // Burst (a client load pattern): many transactions, each a batch of its own, within a few
    // tens of milliseconds - more outstanding batch digests than a leader rotation of small
    // blocks could carry; all of them must still be committed everywhere.
    if b.r.chance(0.3) {
        let bs = b.r.range(100, 200) as usize;
        for p in b.sc.params.iter_mut() {
            p.batch_size = bs;
        }
        let count = b.sc.n * b.r.range(40, 100) as usize;
        let t0 = b.r.range(600_000, load_end - 300_000);
        let t1 = t0 + b.r.range(1_000, 60_000);
        b.load(count, t0, t1, (bs as u64 + 10, bs as u64 + 80), 3);
    }
    let all = b.all_nodes();
    // A node misses batch broadcasts: its mempool links are cut for a while (batches to it are
    // cancelled once a quorum acknowledged them), possibly also towards the proposer afterwards.
    // One node at a time (the others still form a quorum, so no view change is provoked).
    // Unresponsive first sync targets for good: from early on, all peers but one or two can no
    // longer reach node j's mempool port (it misses their batch broadcasts and never gets their
    // replies), while j's own connections work. Every batch of theirs must reach j through the
    // retries to `sync_retry_nodes` randomly chosen peers, which have to hit a peer that can answer.
    let one_way = b.r.chance(0.25);
    if one_way {
        let j = b.r.below(b.sc.n);
        let mut others: Vec<usize> = (0..b.sc.n).filter(|i| *i != j).collect();
        b.r.shuffle(&mut others);
        // Parameters chosen so that the oracle does not depend on luck: two retry targets per
        // attempt, of which at least one can answer with probability >= 0.6 per attempt (n=4:
        // 2 of 3 peers cut, n>=5: all but 2), no garbage collection of pending requests, a short
        // retry delay, and 30 s more until the deadline (>= 20 attempts: 0.4^20 = 1e-8).
        let keep = if b.sc.n >= 5 { 2 } else { 1 };
        let mut cut = 0u64;
        for i in others.iter().skip(keep) {
            cut |= bit(*i);
        }
        let t0 = b.r.range(100_000, 600_000);
        b.sc.net.rules.push(Rule { t0_us: t0, t1_us: FOREVER, src: cut, dst: bit(j), bidir: false, svc_mask: 1 << SVC_MEMPOOL, kind: RuleKind::Block, reply_only: false, label: "miss-batch-one-way".into() });
        for p in b.sc.params.iter_mut() {
            p.sync_retry_nodes = 2;
            p.sync_retry_delay = 500;
            p.gc_depth = 10_000;
        }
    }
    let k = if one_way { 0 } else { b.r.range(0, 2) };
    let mut t_free = 100_000u64;
    for _ in 0..k {
        if t_free + 300_000 >= load_end {
            break;
        }
        let j = b.r.below(b.sc.n);
        let t0 = b.r.range(t_free, load_end);
        let len = b.r.range(200_000, 3_000_000);
        let t1 = (t0 + len).min(load_end + 1_000_000);
        let peers = if b.r.chance(0.5) { all & !bit(j) } else { bit((j + 1 + b.r.below(b.sc.n - 1)) % b.sc.n) };
        b.sc.net.rules.push(Rule { t0_us: t0, t1_us: t1, src: bit(j), dst: peers & !bit(j), bidir: true, svc_mask: 1 << SVC_MEMPOOL, kind: RuleKind::Block, reply_only: false, label: "miss-batch".into() });
        t_free = t1 + 3_000_000;
    }
    if b.r.chance(0.4) {
        b.clock_jumps(2);
    }
    let retry = b.sc.params[0].sync_retry_delay * 1_000;
    b.sc.bounds.e2e_deadline_us = load_end;
    // A backward jump of the wall clock postpones the retry of a sync request by its size.
    let back: u64 = b.sc.net.clock_jumps.iter().filter(|(_, d)| *d < 0).map(|(_, d)| (-*d) as u64 * 1_000).sum();
    b.sc.duration_us = load_end + 1_000_000 + 2 * (retry + 8_000_000) + back + if one_way { 30_000_000 } else { 0 };
    b.tokio_knobs();
    b.finish()
}

/// C06: up to f crashes at arbitrary instants, arbitrary delays before stabilisation, then
/// timely delivery; nothing is lost between live nodes.
pub fn c06(seed: u64, thorough: bool) -> Scenario {
    let mut b = Builder::new("C06", seed);
    let sizes: &[usize] = &[4, 5, 6, 7];
    b.committee(sizes, true);
    let skew = b.r.chance(0.4);
    b.params((300, 1_000), skew);
    let t_max = b.sc.params.iter().map(|p| p.timeout_delay).max().unwrap() * 1_000;
    let t_min = b.sc.params.iter().map(|p| p.timeout_delay).min().unwrap() * 1_000;
    // After stabilisation every message takes well below the smallest round timeout.
    let cap = t_min / 12;
    let lo = b.r.log_range(300, 3_000).min(cap / 2);
    b.sc.net.base_lat_us = (lo, b.r.range(lo + 100, cap.max(lo + 200)));
    b.sc.net.jitter_us = b.r.range(0, cap / 4);
    b.sc.net.connect_lat_us = (200, cap.max(400));
    b.boots(0);
    let t_stable = b.r.range(0, 8) * t_max;
    // Pre-stabilisation chaos: spikes and finite stalls (nothing lost).
    if t_stable > 0 {
        if b.r.chance(0.7) {
            let p = *b.r.pick(&[0.02, 0.1, 0.3]);
            b.spikes(p, 3 * t_max, t_stable);
        }
        let k = b.r.range(0, 3);
        for _ in 0..k {
            let node = b.r.below(b.sc.n);
            let t0 = b.r.range(0, t_stable);
            let t1 = b.r.range(t0, t_stable);
            let (o, i) = *b.r.pick(&[(true, true), (true, false), (false, true)]);
            b.stall_node(node, t0, t1, o, i);
        }
    }
    // Crashes: any set within the stake budget, at arbitrary instants.
    let budget = b.max_faulty_stake();
    let set = if b.r.chance(0.85) { b.faulty_set(budget, 2) } else { vec![] };
    let mut last_crash = 0;
    for i in &set {
        let t = match b.r.below(4) {
            0 => 0,
            1 => b.r.range(0, t_stable.max(1)),
            2 => t_stable,
            _ => b.r.range(t_stable, t_stable + 6 * t_max),
        };
        last_crash = last_crash.max(t);
        b.crash(*i, t);
    }
    let f = set.len() as u64;
    let retry = b.sc.params[0].sync_retry_delay * 1_000;
    let window = (2 * f + 4) * t_max + retry + 5_000_000 + 2_000_000;
    b.sc.bounds.t_stable_us = t_stable.max(last_crash);
    b.sc.bounds.liveness_window_us = window;
    b.sc.duration_us = b.sc.bounds.t_stable_us + window * if thorough { 3 } else { 2 };
    let dur = b.sc.duration_us;
    let txs = b.r.range(5, 40) as usize;
    b.load(txs, 0, dur, (16, 200), 2);
    b.tokio_knobs();
    b.finish()
}

/// C07: one node is cut off while the others keep committing, then reconnected.
pub fn c07(seed: u64, thorough: bool) -> Scenario {
    let mut b = Builder::new("C07", seed);
    let sizes: &[usize] = if thorough { &[4, 5, 7] } else { &[4, 4, 5] };
    b.committee(sizes, false);
    b.params((400, 1_200), false);
    // Larger latencies keep the number of rounds per virtual second (and the cost) moderate.
    let lo = b.r.range(3_000, 10_000);
    b.sc.net.base_lat_us = (lo, lo + b.r.range(1_000, 20_000));
    b.sc.net.jitter_us = b.r.range(0, 3_000);
    for p in b.sc.params.iter_mut() {
        p.sync_retry_delay = *b.r.pick(&[1_000u64, 2_000, 5_000]);
    }
    b.boots(0);
    let lagger = b.r.below(b.sc.n);
    let t0 = b.r.range(0, 5 * b.t_us);
    let len = b.r.log_range(b.t_us / 4, if thorough { 12 * b.t_us } else { 6 * b.t_us });
    let heal = t0 + len;
    let all = b.all_nodes();
    b.sc.net.rules.push(Rule { t0_us: t0, t1_us: heal, src: bit(lagger), dst: all & !bit(lagger), bidir: true, svc_mask: ALL_SVC, kind: RuleKind::Block, reply_only: false, label: "isolate".into() });
    // View changes inside the gap (slow leaders among the others only happen by the seeded set).
    if b.r.chance(0.4) {
        b.mute(0.1, (1.1, 1.6), 0.0, 2_000);
    }
    // Unresponsive first sync target: one peer's consensus port is mute towards the lagger.
    let mut deaf_extra = 0u64;
    if b.r.chance(0.5) {
        let p = (lagger + 1 + b.r.below(b.sc.n - 1)) % b.sc.n;
        if b.r.chance(0.5) {
            let until = heal + b.r.range(b.t_us, 4 * b.t_us);
            b.sc.net.rules.push(Rule { t0_us: heal, t1_us: until, src: bit(lagger), dst: bit(p), bidir: true, svc_mask: 1 << SVC_CONSENSUS, kind: RuleKind::Stall, reply_only: false, label: "mute-sync-target".into() });
        } else {
            // The peer does not see anything the lagger sends to its consensus port (requests,
            // votes, timeouts are held) while its own proposals still reach the lagger: sync
            // requests addressed to it stay unanswered and must be retried with the others.
            // Mostly for a few retry periods; sometimes for ever (known finding F3).
            let retry = b.sc.params[0].sync_retry_delay * 1_000;
            let t0 = heal.saturating_sub(b.t_us);
            let t1 = if b.r.chance(0.85) { heal + b.r.range(retry + 14_000_000, 2 * (retry + 14_000_000)) } else { FOREVER };
            b.sc.net.rules.push(Rule { t0_us: t0, t1_us: t1, src: bit(lagger), dst: bit(p), bidir: false, svc_mask: 1 << SVC_CONSENSUS, kind: RuleKind::Stall, reply_only: false, label: "deaf-sync-target".into() });
            b.sc.bounds.deaf = Some((p, t0, t1));
            deaf_extra = if t1 == FOREVER { 0 } else { (t1 - heal) + (t1 - heal) / 3 };
        }
    }
    if b.sc.bounds.deaf.is_none() && b.r.chance(0.4) {
        b.clock_jumps(2);
    }
    // One of the other nodes crashes around the heal (within f): from then on the lagging node's
    // votes are needed, every request to the crashed node stays unanswered, and each timed-out
    // round brings another block on top of the same missing parent.
    // A crashed peer never answers: each backward step of the catch-up through one of its blocks
    // costs the retry delay rounded up to the retry timer's 5 s granularity. The deadline allows
    // for `slow_steps` of them; the oracle does not judge runs whose gap needs more.
    let retry = b.sc.params[0].sync_retry_delay * 1_000;
    let slow_period = (retry / 5_000_000 + 1) * 5_000_000 + 500_000;
    if b.sc.bounds.deaf.is_none() && b.r.chance(0.25) {
        // Content-triggered crash: the author of the first proposal that reaches the lagger
        // after the heal dies at that instant.
        b.sc.bounds.crash_first_proposer = true;
        b.sc.bounds.slow_steps = 6;
        deaf_extra += 6 * b.t_us + 8_000_000 + 6 * slow_period;
    } else if b.sc.bounds.deaf.is_none() && b.r.chance(0.4) {
        let victim = (lagger + 1 + b.r.below(b.sc.n - 1)) % b.sc.n;
        // Mostly right after the heal: the victim's proposals still reach the lagger, then it is gone.
        let t = if b.r.chance(0.7) { heal + b.r.range(0, b.t_us) } else { b.r.range(heal.saturating_sub(b.t_us), heal + 3 * b.t_us) };
        b.crash(victim, t);
        b.sc.bounds.slow_steps = 6;
        deaf_extra += 4 * b.t_us + 6 * slow_period;
    }
    // A backward jump of the wall clock postpones the retry of a pending request by its size.
    let back: u64 = b.sc.net.clock_jumps.iter().filter(|(_, d)| *d < 0).map(|(_, d)| (-*d) as u64 * 1_000).sum();
    deaf_extra += back;
    let window = 6 * b.t_us + retry + 7_000_000;
    let reconnect = (2 * len).max(1_000_000).min(62_000_000);
    b.sc.bounds.lagger = Some(lagger);
    b.sc.bounds.heal_us = heal;
    b.sc.bounds.liveness_window_us = window;
    b.sc.bounds.catchup_deadline_us = heal + reconnect + retry + 10_000_000 + window + deaf_extra;
    b.sc.duration_us = b.sc.bounds.catchup_deadline_us;
    let dur = b.sc.duration_us;
    let txs = b.r.range(5, 40) as usize;
    b.load(txs, 0, dur.min(20_000_000), (16, 200), 2);
    b.tokio_knobs();
    b.finish()
}

/// World W2 (puppet): one real node, the harness plays everybody else.
pub fn puppet(profile: &str, seed: u64, thorough: bool) -> Scenario {
    let mut b = Builder::new(profile, seed);
    b.sc.world = "puppet".into();
    let n = *b.r.pick(&[4usize, 4, 5, 7]);
    b.sc.n = n;
    let real = b.r.below(n);
    b.sc.stakes = vec![1; n];
    if b.r.chance(0.35) {
        // Unequal stakes; the puppets together must still hold a quorum.
        loop {
            let s: Vec<u32> = (0..n).map(|_| b.r.range(1, 4) as u32).collect();
            let total: u64 = s.iter().map(|x| *x as u64).sum();
            let q = 2 * total / 3 + 1;
            if total - s[real] as u64 >= q {
                b.sc.stakes = s;
                break;
            }
        }
    }
    b.params((300, 900), false);
    b.sc.net.base_lat_us = (100, 400);
    b.sc.net.jitter_us = 100;
    b.sc.net.connect_lat_us = (50, 200);
    b.sc.duration_us = 0;
    let steps = if thorough { b.r.range(150, 500) } else { b.r.range(80, 220) } as usize;
    let heavy_invalid = matches!(profile, "C04" | "C20" | "C10" | "C19");
    let cfg = crate::puppet::PuppetCfg {
        real,
        steps,
        settle_us: 8_000,
        p_invalid: if heavy_invalid { *b.r.pick(&[0.15, 0.3, 0.5]) } else { *b.r.pick(&[0.0, 0.05, 0.15]) },
        p_timeout_episode: *b.r.pick(&[0.05, 0.15, 0.35]),
        p_equivocate: *b.r.pick(&[0.0, 0.1, 0.3]),
        p_gap: 0.1,
        p_future: 0.1,
        p_withhold_parent: if matches!(profile, "C07") { 1.0 } else { *b.r.pick(&[0.0, 0.1, 0.3]) },
        p_duplicate: *b.r.pick(&[0.0, 0.05, 0.2]),
        p_stale: *b.r.pick(&[0.0, 0.05, 0.15]),
        p_payload: *b.r.pick(&[0.0, 0.1, 0.3]),
        p_sync_probe: *b.r.pick(&[0.02, 0.08]),
        p_mute_ack: 0.05,
        p_unsafe: *b.r.pick(&[0.0, 0.05, 0.15]),
        only_mutations: vec![],
    };
    b.sc.script = serde_json::to_value(&cfg).unwrap();
    b.tokio_knobs();
    b.finish()
}

// ---- C14: the reliable sender ----------------------------------------------------------------

fn rs_scenario(profile: &str, seed: u64, ops: Vec<crate::rsender::RsOp>, tail_us: u64) -> Scenario {
    let mut b = Builder::new(profile, seed);
    b.sc.world = "rsender".into();
    b.sc.n = 2;
    b.sc.stakes = vec![1, 1];
    b.sc.params = vec![NodeParams::default(); 2];
    b.sc.net.base_lat_us = (1_000, 3_000);
    b.sc.net.jitter_us = 500;
    b.sc.net.connect_lat_us = (500, 2_000);
    b.sc.script = serde_json::to_value(&crate::rsender::RsCfg { ops, tail_us }).unwrap();
    b.sc
}

/// The enumerated fault sub-space: m <= 4 messages (burst or spaced), one break at every frame
/// position in either direction (lost or just received), 0..3 refused reconnections, one
/// cancellation at every position (right after hand-over, 2 ms later while acknowledgements are
/// in flight, or after the traffic has flowed).
pub fn c14_cases() -> usize {
    (1..=4usize).map(|m| 2 * (1 + 4 * m) * 4 * (1 + 3 * m)).sum()
}

pub fn c14_case(k: usize) -> Option<Scenario> {
    use crate::net::Break;
    use crate::rsender::RsOp;
    let mut k = k;
    for m in 1..=4usize {
        let size = 2 * (1 + 4 * m) * 4 * (1 + 3 * m);
        if k >= size {
            k -= size;
            continue;
        }
        let spaced = k % 2 == 1;
        k /= 2;
        let brk = k % (1 + 4 * m);
        k /= 1 + 4 * m;
        let refusals = (k % 4) as u32;
        k /= 4;
        let cancel = k;
        let mut ops = Vec::new();
        for id in 0..m as u32 {
            ops.push(RsOp::Send { id });
            if spaced {
                ops.push(RsOp::Wait { us: 5_000 });
            }
        }
        if cancel > 0 {
            let j = ((cancel - 1) / 3) as u32;
            match (cancel - 1) % 3 {
                1 => ops.push(RsOp::Wait { us: 2_000 }),  // written, acknowledgement still in flight
                2 => ops.push(RsOp::Wait { us: 50_000 }), // everything has flowed
                _ => {}                                   // before anything was written
            }
            ops.push(RsOp::Cancel { id: j });
        }
        let mut sc = rs_scenario("C14", 0xC14_0000 + (m * 100_000 + k) as u64, ops, 20_000_000);
        if brk == 0 {
            if refusals > 0 {
                sc.net.refuse_first.push((0, 1, 0, refusals));
            }
        } else {
            let x = brk - 1;
            let fidx = (x / 4) as u32;
            let to_listener = x % 4 < 2;
            let at_delivered = x % 2 == 1;
            sc.net.breaks.push(Break { dialer: 0, listener: 1, svc: 0, conn_idx: 0, to_listener, fidx, at_delivered, refuse_after: refusals, fired: false });
        }
        sc.seed = crate::rng::mix(&[0xC14, m as u64, spaced as u64, brk as u64, refusals as u64, cancel as u64]);
        return Some(sc);
    }
    None
}

pub fn c14_random(seed: u64, thorough: bool) -> Scenario {
    use crate::net::Break;
    use crate::rsender::RsOp;
    let mut r = Rng::new(seed);
    if r.chance(0.25) {
        // Steady sender through an outage: the peer is unreachable for `down`, new messages keep
        // arriving every 20-150 ms (closer together than the shortest back-off delay) until well
        // after the moment the doubling back-off must have reconnected, and the run ends 100 ms
        // after the last hand-over: every kept message must have been delivered by then.
        let t0 = if r.chance(0.5) { 0 } else { r.range(1_000, 60_000) };
        let down = r.log_range(100_000, 3_000_000);
        let gap = r.range(20_000, 150_000);
        let total = t0 + 2 * down + 1_400_000;
        let mut ops = Vec::new();
        let mut t = 0u64;
        let mut id = 0u32;
        while t < total {
            ops.push(RsOp::Send { id });
            ops.push(RsOp::Wait { us: gap });
            id += 1;
            t += gap;
        }
        ops.push(RsOp::Send { id });
        let mut sc = rs_scenario("C14", seed, ops, 100_000);
        sc.net.rules.push(Rule { t0_us: t0, t1_us: t0 + down, src: 1, dst: 2, bidir: true, svc_mask: 1, kind: RuleKind::Block, reply_only: false, label: "peer-down".into() });
        return sc;
    }
    let m = r.range(1, if thorough { 50 } else { 20 }) as u32;
    let mut ops = Vec::new();
    let mut live: Vec<u32> = Vec::new();
    for id in 0..m {
        ops.push(RsOp::Send { id });
        live.push(id);
        if r.chance(0.5) {
            ops.push(RsOp::Wait { us: r.log_range(100, 300_000) });
        }
        if r.chance(0.15) && !live.is_empty() {
            let j = live.remove(r.below(live.len()));
            ops.push(RsOp::Cancel { id: j });
        }
    }
    let mut sc = rs_scenario("C14", seed, ops, 150_000_000);
    // Several breaks on successive connections, each followed by some refused attempts.
    let nb = r.range(0, 6);
    for c in 0..nb {
        sc.net.breaks.push(Break {
            dialer: 0,
            listener: 1,
            svc: 0,
            conn_idx: c as u32,
            to_listener: r.chance(0.5),
            fidx: r.range(0, 6) as u32,
            at_delivered: r.chance(0.5),
            refuse_after: r.range(0, 4) as u32,
            fired: false,
        });
    }
    // The peer is down for a while (listener unreachable): partitions in time.
    let np = r.range(0, 2);
    for _ in 0..np {
        let t0 = r.log_range(1_000, 2_000_000);
        let len = r.log_range(10_000, 5_000_000);
        sc.net.rules.push(Rule { t0_us: t0, t1_us: t0 + len, src: 1, dst: 2, bidir: true, svc_mask: 1, kind: RuleKind::Block, reply_only: false, label: "peer-down".into() });
    }
    if r.chance(0.5) {
        sc.net.short_write_prob = *r.pick(&[0.05, 0.3]);
        sc.net.split_read_prob = *r.pick(&[0.05, 0.3]);
        sc.net.pending_write_prob = *r.pick(&[0.0, 0.1]);
    }
    sc
}

/// C16: the store under concurrent handles.
pub fn c16(seed: u64, thorough: bool) -> Scenario {
    use crate::storew::{StCfg, StOp};
    let mut b = Builder::new("C16", seed);
    b.sc.world = "store".into();
    b.sc.n = 1;
    b.sc.stakes = vec![1];
    b.sc.params = vec![NodeParams::default()];
    let nclients = b.r.range(2, 6) as usize;
    let nkeys = b.r.range(1, 4) as u8;
    let max_ops = if thorough { 12 } else { 8 };
    let mut val = 1u32;
    let mut clients = Vec::new();
    let notify_heavy = b.r.chance(0.5);
    for _ in 0..nclients {
        let k = b.r.range(2, max_ops);
        let mut ops = Vec::new();
        for _ in 0..k {
            if b.r.chance(0.6) {
                ops.push(StOp::Yield { n: b.r.range(1, 6) as u8 });
            }
            let key = b.r.below(nkeys as usize) as u8;
            let x = b.r.below(10);
            let op = if x < 4 {
                val += 1;
                StOp::Write { key, val }
            } else if x < (if notify_heavy { 5 } else { 7 }) {
                StOp::Read { key }
            } else {
                // Sometimes a key that is never written (its waiters must stay pending).
                let key = if b.r.chance(0.1) { 7 } else { key };
                if b.r.chance(0.2) {
                    StOp::NotifyDrop { key }
                } else {
                    StOp::Notify { key }
                }
            };
            ops.push(op);
        }
        clients.push(ops);
    }
    b.sc.script = serde_json::to_value(&StCfg { clients, reopen: true }).unwrap();
    b.tokio_knobs();
    b.finish()
}

/// C15: hostile bytes on all three ports of every node, then functional probes.
pub fn c15(seed: u64, thorough: bool) -> Scenario {
    let mut b = Builder::new("C15", seed);
    b.committee(&[5], false);
    // One authority is played by the harness: it is silent (so the other four are all needed)
    // and lends its key for well-formed messages with absurd content.
    b.sc.byz = vec![b.r.below(5)];
    b.sc.adv = AdvCfg { seed: 1, ack: 1.0, silent: 1.0, ..Default::default() };
    // Short round timeouts: every fifth round is led by the silent authority and times out.
    b.params((300, 600), false);
    let lo = b.r.range(2_000, 6_000);
    b.sc.net.base_lat_us = (lo, lo + b.r.range(500, 8_000));
    b.sc.net.jitter_us = 1_000;
    b.boots(0);
    let hostile_from = 400_000u64;
    let hostile_to = if thorough { 4_000_000 } else { 2_500_000 };
    let probe_at = hostile_to + 500_000;
    b.sc.duration_us = probe_at + 8_000_000;
    let dur = b.sc.duration_us;
    b.load(40, 50_000, dur - 500_000, (16, 300), 3);
    let honest: Vec<usize> = (0..5).filter(|i| b.sc.honest(*i)).collect();
    let count = b.r.range(20, if thorough { 200 } else { 80 });
    for g in 0..count {
        let t = b.r.range(hostile_from, hostile_to);
        let node = *b.r.pick(&honest);
        let svc = *b.r.pick(&[SVC_CONSENSUS, SVC_CONSENSUS, SVC_MEMPOOL, SVC_TX]);
        b.sc.events.push(TimedEvent { t_us: t, kind: EventKind::Hostile { from: 40 + (g % 8) as usize, node, svc, gen: g } });
    }
    for node in honest {
        b.sc.events.push(TimedEvent { t_us: probe_at, kind: EventKind::ServiceProbe { node } });
    }
    b.tokio_knobs();
    b.finish()
}
