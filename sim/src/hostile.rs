//! Hostile-frame injection and service probes (C15).
use crate::cluster::{keypair, Cluster};
use crate::ident;
use crate::net::{SVC_CONSENSUS, SVC_MEMPOOL, SVC_TX};
use crate::rng::{mix, Rng};
use consensus::{Block, ConsensusMessage, Timeout, Vote, QC, TC};
use crypto::{Digest, PublicKey, Signature};
use mempool::MempoolMessage;

fn bincode_str(s: &str) -> Vec<u8> {
    let mut v = (s.len() as u64).to_le_bytes().to_vec();
    v.extend_from_slice(s.as_bytes());
    v
}

/// Raw bincode of `ConsensusMessage::SyncRequest(digest, <origin as an arbitrary string>)`.
fn sync_request_with_origin_string(d: &Digest, origin: &str) -> Vec<u8> {
    let mut v = 4u32.to_le_bytes().to_vec();
    v.extend_from_slice(&d.0);
    v.extend_from_slice(&bincode_str(origin));
    v
}

fn batch_request_with_origin_string(ds: &[Digest], origin: &str) -> Vec<u8> {
    let mut v = 1u32.to_le_bytes().to_vec();
    v.extend_from_slice(&(ds.len() as u64).to_le_bytes());
    for d in ds {
        v.extend_from_slice(&d.0);
    }
    v.extend_from_slice(&bincode_str(origin));
    v
}

fn conn(c: &mut Cluster, from: usize, node: usize, svc: u8) -> Option<usize> {
    if let Some(k) = c.hostile_conns.get(&(from, node, svc)) {
        if c.net.conn_alive(*k) {
            return Some(*k);
        }
    }
    match c.net.h_connect(from, node, svc) {
        Ok(k) => {
            c.hostile_conns.insert((from, node, svc), k);
            Some(k)
        }
        Err(_) => None,
    }
}

fn stored_key(c: &Cluster, node: usize, want_batch: bool, r: &mut Rng) -> Option<Digest> {
    let o = c.obs.lock().unwrap();
    let mut keys: Vec<Digest> = o.nodes[node]
        .store
        .iter()
        .filter(|(k, (_, vh, _))| k.len() == 32 && ((k.as_slice() == vh.0) == want_batch))
        .map(|(k, _)| {
            let mut d = [0u8; 32];
            d.copy_from_slice(k);
            Digest(d)
        })
        .collect();
    keys.sort();
    if keys.is_empty() {
        None
    } else {
        Some(keys[r.below(keys.len())].clone())
    }
}

pub fn inject(c: &mut Cluster, from: usize, node: usize, svc: u8, gen: u64) {
    let mut r = Rng::new(mix(&[c.sc.seed, 4242, gen]));
    let byz = c.sc.byz.first().cloned();
    let member = c.names[(node + 1) % c.sc.n];
    let kind = match svc {
        SVC_CONSENSUS => *r.pick(&[0u32, 1, 2, 3, 4, 5, 6, 10, 11, 11, 12, 12, 13, 14, 15, 16, 17, 18, 19, 20, 21, 21, 22, 23, 24]),
        SVC_MEMPOOL => *r.pick(&[0u32, 1, 2, 3, 4, 5, 6, 30, 30, 31, 32, 33, 34, 34, 35, 36]),
        _ => *r.pick(&[0u32, 1, 2, 3, 40, 40, 41]),
    };
    // A scripted kind: the generator put it into the upper bits of `gen`.
    let kind = if gen >> 40 != 0 { (gen >> 40) as u32 } else { kind };
    let recent: Vec<Vec<u8>> = c.recent_frames.get(&svc).cloned().unwrap_or_default();
    let k = match conn(c, from, node, svc) {
        Some(k) => k,
        None => return,
    };
    c.obs.lock().unwrap().probe(&format!("hostile.kind{}", kind));
    c.net.count_fault("hostile-frame");
    let mut frame: Option<Vec<u8>> = None;
    let mut raw: Option<Vec<u8>> = None;
    let mut close_after = false;
    match kind {
        0 | 40 => frame = Some(Vec::new()),
        1 => frame = Some((0..r.range(1, 200)).map(|_| r.next() as u8).collect()),
        2 => {
            let mut v = (9u32 * 1024 * 1024 + r.range(0, 1000) as u32).to_be_bytes().to_vec();
            v.extend((0..64).map(|_| r.next() as u8));
            raw = Some(v);
        }
        3 => {
            let mut v = 100u32.to_be_bytes().to_vec();
            v.extend((0..10).map(|_| r.next() as u8));
            raw = Some(v);
            close_after = true;
        }
        4 | 5 | 6 => {
            if !recent.is_empty() {
                let mut f = recent[r.below(recent.len())].clone();
                match kind {
                    4 => {
                        for _ in 0..r.range(1, 4) {
                            if !f.is_empty() {
                                let i = r.below(f.len());
                                f[i] ^= 1 << r.below(8);
                            }
                        }
                    }
                    5 => {
                        let n = r.below(f.len().max(1));
                        f.truncate(n);
                    }
                    _ => f.extend((0..r.range(1, 40)).map(|_| r.next() as u8)),
                }
                frame = Some(f);
            }
        }
        10 => frame = Some(bincode::serialize(&ConsensusMessage::SyncRequest(ident::bytes_digest(&r.next().to_le_bytes()), member)).unwrap()),
        11 => {
            // A sync request naming a key of the OTHER component in the shared store (a batch).
            if let Some(d) = stored_key(c, node, true, &mut r) {
                frame = Some(bincode::serialize(&ConsensusMessage::SyncRequest(d, member)).unwrap());
                c.obs.lock().unwrap().probe("hostile.sync-request-for-batch-key");
            }
        }
        12 => {
            // Origin key whose base64 text decodes to fewer than 32 bytes.
            let short = base64::encode(&vec![7u8; r.range(0, 31) as usize]);
            frame = Some(sync_request_with_origin_string(&Digest::default(), &short));
        }
        13 => frame = Some(sync_request_with_origin_string(&Digest::default(), "!!! not base64 !!!")),
        14 => {
            let mut v = 9u32.to_le_bytes().to_vec();
            v.extend((0..40).map(|_| r.next() as u8));
            frame = Some(v);
        }
        15 => {
            // Propose whose QC claims 2^60 votes.
            let mut v = 0u32.to_le_bytes().to_vec();
            v.extend_from_slice(&[0u8; 32]);
            v.extend_from_slice(&0u64.to_le_bytes());
            v.extend_from_slice(&(1u64 << 60).to_le_bytes());
            frame = Some(v);
        }
        16 | 17 | 18 | 19 | 20 => {
            if let Some(b) = byz {
                let (_, sk) = keypair(c.sc.seed, b);
                let name = c.names[b];
                let m = match kind {
                    16 => {
                        let h = ident::bytes_digest(b"x");
                        ConsensusMessage::Vote(Vote { hash: h.clone(), round: u64::MAX, author: name, signature: Signature::new(&ident::vote_digest(&h, u64::MAX), &sk) })
                    }
                    17 => ConsensusMessage::Timeout(Timeout { high_qc: QC::genesis(), round: u64::MAX, author: name, signature: Signature::new(&ident::timeout_digest(u64::MAX, 0), &sk) }),
                    18 => {
                        // A far-future round that this authority leads, on top of genesis.
                        let members = c.obs.lock().unwrap().members.clone();
                        let mut round = u64::MAX - 16;
                        while members.leader_index(round) != b {
                            round += 1;
                        }
                        let mut blk = Block { qc: QC::genesis(), tc: None, author: name, round, payload: vec![], signature: Signature::default() };
                        blk.signature = Signature::new(&ident::block_digest(&blk), &sk);
                        ConsensusMessage::Propose(blk)
                    }
                    19 => ConsensusMessage::TC(TC { round: r.range(0, 1_000_000), votes: vec![] }),
                    _ => {
                        // A correctly signed block whose payload names a consensus block's key.
                        let members = c.obs.lock().unwrap().members.clone();
                        let base = c.obs.lock().unwrap().max_round_seen + 1;
                        let mut round = base;
                        while members.leader_index(round) != b {
                            round += 1;
                        }
                        let payload = stored_key(c, node, false, &mut r).map(|d| vec![d]).unwrap_or_default();
                        let mut blk = Block { qc: QC::genesis(), tc: None, author: name, round, payload, signature: Signature::default() };
                        blk.signature = Signature::new(&ident::block_digest(&blk), &sk);
                        ConsensusMessage::Propose(blk)
                    }
                };
                frame = Some(bincode::serialize(&m).unwrap());
            }
        }
        21 => {
            // Boundary digests from a known member: all zero (the genesis digest), all ones.
            let d = if r.chance(0.7) { Digest::default() } else { Digest([0xff; 32]) };
            frame = Some(bincode::serialize(&ConsensusMessage::SyncRequest(d, member)).unwrap());
            c.obs.lock().unwrap().probe("hostile.sync-request-boundary-digest");
        }
        22 => {
            // A sync request whose origin is the target itself.
            let me = c.names[node];
            let d = stored_key(c, node, false, &mut r).unwrap_or_default();
            frame = Some(bincode::serialize(&ConsensusMessage::SyncRequest(d, me)).unwrap());
        }
        23 => {
            // TC of the highest possible round without votes; QC-less proposal with a zero author.
            frame = Some(bincode::serialize(&ConsensusMessage::TC(TC { round: u64::MAX, votes: vec![] })).unwrap());
        }
        24 => {
            let blk = Block { qc: QC::genesis(), tc: None, author: PublicKey::default(), round: r.range(0, 3), payload: vec![], signature: Signature::default() };
            frame = Some(bincode::serialize(&ConsensusMessage::Propose(blk)).unwrap());
        }
        35 => {
            let d = if r.chance(0.5) { Digest::default() } else { Digest([0xff; 32]) };
            frame = Some(bincode::serialize(&MempoolMessage::BatchRequest(vec![d], member)).unwrap());
        }
        36 => frame = Some(bincode::serialize(&MempoolMessage::BatchRequest(vec![], member)).unwrap()),
        30 => {
            // A batch request naming a consensus block's key in the shared store.
            if let Some(d) = stored_key(c, node, false, &mut r) {
                frame = Some(bincode::serialize(&MempoolMessage::BatchRequest(vec![d], member)).unwrap());
                c.obs.lock().unwrap().probe("hostile.batch-request-for-block-key");
            }
        }
        31 => {
            let (pk, _) = keypair(c.sc.seed, 900 + (gen % 50) as usize);
            frame = Some(bincode::serialize(&MempoolMessage::BatchRequest(vec![Digest::default()], pk)).unwrap());
        }
        32 => {
            let mut v = 1u32.to_le_bytes().to_vec();
            v.extend_from_slice(&(1u64 << 59).to_le_bytes());
            frame = Some(v);
        }
        33 => {
            let mut v = 0u32.to_le_bytes().to_vec();
            v.extend_from_slice(&(1u64 << 58).to_le_bytes());
            frame = Some(v);
        }
        34 => {
            let short = base64::encode(&vec![9u8; r.range(0, 31) as usize]);
            frame = Some(batch_request_with_origin_string(&[Digest::default()], &short));
        }
        37 => {
            // A well-formed batch followed by trailing bytes (bincode ignores them): a
            // non-canonical encoding, whose hash differs from that of its re-encoding.
            let tx = Cluster::tx_bytes(24, 9, 0x5eed_0000_0000 + (gen & 0xffff));
            let mut v = bincode::serialize(&MempoolMessage::Batch(vec![tx])).unwrap();
            for _ in 0..r.range(1, 8) {
                v.push(r.next() as u8);
            }
            c.obs.lock().unwrap().probe("hostile.batch-with-trailing-bytes");
            frame = Some(v);
        }
        41 => frame = Some((0..(1 << 20)).map(|i| (i as u8).wrapping_mul(31)).collect()),
        _ => {}
    }
    if let Some(f) = frame {
        let _ = c.net.h_send_frame(k, true, &f);
    }
    if let Some(v) = raw {
        let _ = c.net.h_send_raw(k, true, &v);
        c.hostile_conns.remove(&(from, node, svc));
        if close_after {
            c.net.h_close(k, true);
        }
    }
    let _ = PublicKey::default();
}

/// Functional probes of the node's services; the answers are looked for on the tap.
pub fn service_probe(c: &mut Cluster, node: usize) {
    let mut r = Rng::new(mix(&[c.sc.seed, 4343, node as u64, c.net.now_us()]));
    let byz = match c.sc.byz.first() {
        Some(b) => *b,
        None => return,
    };
    let now = c.net.now_us();
    let origin = c.names[byz];
    let from = crate::cluster::CLIENT_BASE + 20;
    // (b) block sync request.
    if let Some(d) = stored_key(c, node, false, &mut r) {
        if let Some(k) = conn(c, from, node, SVC_CONSENSUS) {
            let m = bincode::serialize(&ConsensusMessage::SyncRequest(d.clone(), origin)).unwrap();
            let _ = c.net.h_send_frame(k, true, &m);
            c.obs.lock().unwrap().ext.service_probes.push(crate::monitors::ServiceProbe { kind: 'b', node, to: byz, digest: d, tx: Vec::new(), t_us: now, answered: false });
        }
    }
    // (c) batch request.
    if let Some(d) = stored_key(c, node, true, &mut r) {
        if let Some(k) = conn(c, from, node, SVC_MEMPOOL) {
            let m = bincode::serialize(&MempoolMessage::BatchRequest(vec![d.clone()], origin)).unwrap();
            let _ = c.net.h_send_frame(k, true, &m);
            c.obs.lock().unwrap().ext.service_probes.push(crate::monitors::ServiceProbe { kind: 'm', node, to: byz, digest: d, tx: Vec::new(), t_us: now, answered: false });
        }
    }
    // (d) a fresh client transaction must end up in a batch on the wire.
    let tx = Cluster::tx_bytes(48, 9, mix(&[c.sc.seed, 4444, node as u64, now]));
    if let Some(k) = conn(c, from + 1, node, SVC_TX) {
        let _ = c.net.h_send_frame(k, true, &tx);
        c.obs.lock().unwrap().ext.service_probes.push(crate::monitors::ServiceProbe { kind: 't', node, to: 0, digest: Digest::default(), tx, t_us: now, answered: false });
    }
    // (a) proposals still processed: the node's commits must go on after this instant.
    c.obs.lock().unwrap().ext.service_probes.push(crate::monitors::ServiceProbe { kind: 'c', node, to: 0, digest: Digest::default(), tx: Vec::new(), t_us: now, answered: false });
    c.obs.lock().unwrap().probe("C15.service-probe");
}
