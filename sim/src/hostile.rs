//! Hostile-frame injection and service probes (C15) - filled in later.
use crate::cluster::Cluster;

pub fn inject(_c: &mut Cluster, _from: usize, _node: usize, _svc: u8, _gen: u64) {}
pub fn service_probe(_c: &mut Cluster, _node: usize) {}
