//! Independent checker: the oracles never call the code's own `verify`, `digest`,
//! `quorum_threshold` or `get_leader` to judge the code. Everything here is re-implemented
//! from the protocol description with ed25519-dalek and SHA-512 directly.
use consensus::{Block, QC, TC};
use crypto::{Digest, PublicKey, Signature};
use ed25519_dalek as dalek;
use sha2::{Digest as _, Sha512};
use std::collections::HashSet;

pub type Round = u64;

fn h32(parts: &[&[u8]]) -> Digest {
    let mut hasher = Sha512::new();
    for p in parts {
        hasher.update(p);
    }
    let out = hasher.finalize();
    let mut d = [0u8; 32];
    d.copy_from_slice(&out[..32]);
    Digest(d)
}

/// Digest signed by a block's author: author || round (LE) || payload digests || parent digest.
pub fn block_digest(b: &Block) -> Digest {
    let mut parts: Vec<&[u8]> = Vec::new();
    let round = b.round.to_le_bytes();
    parts.push(&b.author.0);
    parts.push(&round);
    for x in &b.payload {
        parts.push(&x.0);
    }
    parts.push(&b.qc.hash.0);
    h32(&parts)
}

/// Digest signed by a vote and by every signature inside a QC: block digest || round (LE).
pub fn vote_digest(hash: &Digest, round: Round) -> Digest {
    h32(&[&hash.0, &round.to_le_bytes()])
}

/// Digest signed by a timeout and by every entry of a TC: round (LE) || high-QC round (LE).
pub fn timeout_digest(round: Round, high_qc_round: Round) -> Digest {
    h32(&[&round.to_le_bytes(), &high_qc_round.to_le_bytes()])
}

/// Hash of arbitrary bytes as the mempool addresses batches (first 32 bytes of SHA-512).
pub fn bytes_digest(data: &[u8]) -> Digest {
    h32(&[data])
}

/// Identity over ALL fields (canonical bincode), used to tell apart contents that the
/// code-level digest might conflate.
pub fn content_id<T: serde::Serialize>(x: &T) -> Digest {
    h32(&[&bincode::serialize(x).expect("serialize")])
}

pub fn sig_bytes(sig: &Signature) -> [u8; 64] {
    let v = bincode::serialize(sig).expect("serialize signature");
    let mut out = [0u8; 64];
    out.copy_from_slice(&v[..64]);
    out
}

pub fn sig_from_bytes(b: &[u8; 64]) -> Signature {
    bincode::deserialize(&b[..]).expect("deserialize signature")
}

pub fn verify_sig(digest: &Digest, key: &PublicKey, sig: &Signature) -> bool {
    let pk = match dalek::PublicKey::from_bytes(&key.0) {
        Ok(k) => k,
        Err(_) => return false,
    };
    let s = match dalek::Signature::from_bytes(&sig_bytes(sig)) {
        Ok(s) => s,
        Err(_) => return false,
    };
    pk.verify_strict(&digest.0, &s).is_ok()
}

#[derive(Clone)]
pub struct Members {
    pub names: Vec<PublicKey>,
    pub stakes: Vec<u32>,
    sorted: Vec<PublicKey>,
}

impl Members {
    pub fn new(names: Vec<PublicKey>, stakes: Vec<u32>) -> Self {
        let mut sorted = names.clone();
        sorted.sort();
        Members { names, stakes, sorted }
    }
    pub fn index(&self, k: &PublicKey) -> Option<usize> {
        self.names.iter().position(|x| x == k)
    }
    pub fn stake(&self, k: &PublicKey) -> u64 {
        self.index(k).map_or(0, |i| self.stakes[i] as u64)
    }
    pub fn total(&self) -> u64 {
        self.stakes.iter().map(|x| *x as u64).sum()
    }
    /// Smallest stake strictly above two thirds of the total.
    pub fn quorum(&self) -> u64 {
        2 * self.total() / 3 + 1
    }
    /// Round-robin over the authorities sorted by public key.
    pub fn leader(&self, round: Round) -> PublicKey {
        self.sorted[(round % self.sorted.len() as u64) as usize]
    }
    pub fn leader_index(&self, round: Round) -> usize {
        self.index(&self.leader(round)).unwrap()
    }
}

pub fn is_genesis_qc(qc: &QC) -> bool {
    qc.round == 0 && qc.hash == Digest::default()
}

/// Full check of a QC: distinct members with stake, quorum reached, every signature valid for
/// (hash, round).
pub fn check_qc(qc: &QC, m: &Members) -> Result<(), String> {
    let mut used = HashSet::new();
    let mut weight = 0u64;
    let d = vote_digest(&qc.hash, qc.round);
    for (k, s) in &qc.votes {
        if !used.insert(*k) {
            return Err(format!("QC r{}: signer repeated", qc.round));
        }
        let st = m.stake(k);
        if st == 0 {
            return Err(format!("QC r{}: signer without stake", qc.round));
        }
        if !verify_sig(&d, k, s) {
            return Err(format!("QC r{}: invalid signature of member {:?}", qc.round, m.index(k)));
        }
        weight += st;
    }
    if weight < m.quorum() {
        return Err(format!("QC r{}: stake {} below quorum {}", qc.round, weight, m.quorum()));
    }
    Ok(())
}

pub fn check_tc(tc: &TC, m: &Members) -> Result<(), String> {
    let mut used = HashSet::new();
    let mut weight = 0u64;
    for (k, s, hr) in &tc.votes {
        if !used.insert(*k) {
            return Err(format!("TC r{}: signer repeated", tc.round));
        }
        let st = m.stake(k);
        if st == 0 {
            return Err(format!("TC r{}: signer without stake", tc.round));
        }
        if !verify_sig(&timeout_digest(tc.round, *hr), k, s) {
            return Err(format!("TC r{}: invalid signature of member {:?}", tc.round, m.index(k)));
        }
        weight += st;
    }
    if weight < m.quorum() {
        return Err(format!("TC r{}: stake {} below quorum {}", tc.round, weight, m.quorum()));
    }
    Ok(())
}

/// Full validity of a proposal as the protocol defines it (author is a member and the leader of
/// the round, signature, embedded certificates).
pub fn check_block(b: &Block, m: &Members) -> Result<(), String> {
    if m.stake(&b.author) == 0 {
        return Err("author without stake".into());
    }
    if m.leader(b.round) != b.author {
        return Err("author is not the leader of the round".into());
    }
    if !verify_sig(&block_digest(b), &b.author, &b.signature) {
        return Err("invalid block signature".into());
    }
    if !is_genesis_qc(&b.qc) {
        check_qc(&b.qc, m)?;
    }
    if let Some(tc) = &b.tc {
        check_tc(tc, m)?;
    }
    Ok(())
}

pub fn short(d: &Digest) -> String {
    base64::encode(&d.0[..6])
}
