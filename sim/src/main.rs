#[allow(dead_code)]
#[path = "/repo/node/src/config.rs"]
mod config;
#[allow(dead_code)]
#[path = "/repo/node/src/node.rs"]
mod node;

mod adversary;
mod cluster;
mod entropy;
mod gen;
mod hostile;
mod ident;
mod monitors;
mod net;
mod obs;
mod rng;
mod runner;
mod scenario;

fn main() {
    runner::install_panic_hook();
    let args: Vec<String> = std::env::args().collect();
    match args.get(1).map(|s| s.as_str()) {
        Some("one") => {
            let seed: u64 = args.get(2).and_then(|s| s.parse().ok()).unwrap_or(1);
            let sc = gen::base(seed);
            let t0 = std::time::Instant::now();
            let rep = runner::run_scenario(&sc);
            println!("{}", serde_json::to_string_pretty(&rep).unwrap());
            eprintln!("wall {:?}", t0.elapsed());
        }
        _ => {
            eprintln!("usage: hsim one <seed>");
            std::process::exit(2);
        }
    }
    let _ = std::fs::remove_dir_all(runner::scratch_root());
}
