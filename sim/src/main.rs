#[allow(dead_code)]
#[path = "/repo/node/src/config.rs"]
mod config;
#[allow(dead_code)]
#[path = "/repo/node/src/node.rs"]
mod node;

mod adversary;
mod batch;
mod props;
mod puppet;
mod rsender;
mod storew;
mod cluster;
mod entropy;
mod gen;
mod hostile;
mod ident;
mod monitors;
mod monitors_batch;
mod monitors_sync;
mod net;
mod obs;
mod rng;
mod runner;
mod scenario;

fn env_u64(name: &str, default: u64) -> u64 {
    std::env::var(name).ok().and_then(|v| v.trim().parse::<u64>().ok()).unwrap_or(default)
}

fn main() {
    runner::install_panic_hook();
    let args: Vec<String> = std::env::args().collect();
    let verif_dir = std::env::var("VERIF_DIR").unwrap_or_else(|_| "/verif".to_string());
    let code = match args.get(1).map(|s| s.as_str()) {
        Some("one") => {
            // hsim one <prop> <scenario-seed> [thorough]
            let prop = args.get(2).cloned().unwrap_or_else(|| "base".into());
            let seed: u64 = args.get(3).and_then(|s| s.parse().ok()).unwrap_or(1);
            let thorough = args.get(4).map_or(false, |s| s == "thorough");
            let sc = match props::find(&prop) {
                Some(spec) => (spec.gen)(seed, thorough),
                None => gen::for_prop(&prop, seed, thorough),
            };
            if std::env::var("HSIM_DUMP").is_ok() {
                println!("{}", serde_json::to_string_pretty(&sc).unwrap());
            }
            let t0 = std::time::Instant::now();
            let rep = runner::run_scenario(&sc);
            println!("{}", serde_json::to_string_pretty(&rep).unwrap());
            eprintln!("wall {:?}", t0.elapsed());
            0
        }
        Some("check") => {
            // hsim check <prop> <quick|thorough>
            let prop = args.get(2).cloned().unwrap_or_default();
            let tier = args.get(3).cloned().unwrap_or_else(|| std::env::var("VERIF_TIER").unwrap_or_else(|_| "quick".into()));
            match props::find(&prop) {
                Some(spec) => {
                    let cfg = batch::BatchCfg {
                        prop: prop.clone(),
                        tier,
                        seed: env_u64("VERIF_SEED", 20260922),
                        threads: env_u64("HSIM_THREADS", 16) as usize,
                        runs_override: std::env::var("HSIM_RUNS").ok().and_then(|v| v.parse().ok()),
                        wall_override: std::env::var("HSIM_WALL").ok().and_then(|v| v.parse().ok()),
                        out_dir: std::env::var("HSIM_OUT_DIR").unwrap_or_else(|_| verif_dir.clone()),
                        verif_dir,
                    };
                    batch::run_batch(&cfg, &spec)
                }
                None => {
                    println!("HARNESS-ERROR: unknown property {}", prop);
                    2
                }
            }
        }
        Some("survey") => {
            // hsim survey <prop> <runs> [thorough]
            let prop = args.get(2).cloned().unwrap_or_default();
            let runs: usize = args.get(3).and_then(|s| s.parse().ok()).unwrap_or(100);
            let thorough = args.get(4).map_or(false, |s| s == "thorough");
            match props::find(&prop) {
                Some(spec) => batch::survey(&spec, env_u64("VERIF_SEED", 20260922), runs, thorough, env_u64("HSIM_THREADS", 16) as usize),
                None => 2,
            }
        }
        Some("determinism") => {
            // hsim determinism <prop> <scenarios>
            let prop = args.get(2).cloned().unwrap_or_default();
            let n: usize = args.get(3).and_then(|s| s.parse().ok()).unwrap_or(200);
            match props::find(&prop) {
                Some(spec) => batch::determinism(&spec, env_u64("VERIF_SEED", 20260922), n, env_u64("HSIM_THREADS", 16) as usize),
                None => 2,
            }
        }
        Some("replay") => match args.get(2) {
            Some(path) => batch::replay(path),
            None => 2,
        },
        _ => {
            eprintln!("usage: hsim one <prop> <seed> | check <prop> <tier> | replay <file>");
            2
        }
    };
    let _ = std::fs::remove_dir_all(runner::scratch_root());
    std::process::exit(code);
}
