//! Property monitors beyond the commit-sequence ones in obs.rs (filled in per property).
use crate::net::{Phase, TapEvent, TapKind};
use crate::obs::{Decoded, Observer};
use consensus::Block;
use crypto::Digest;

pub struct Ext {
    pub n: usize,
}

impl Ext {
    pub fn new(n: usize) -> Self {
        Ext { n }
    }
}

pub fn on_frame(_o: &mut Observer, _ev: &TapEvent, _phase: Phase, _fidx: u32, _data: &[u8], _dec: &Decoded) {}
pub fn on_conn_event(_o: &mut Observer, _ev: &TapEvent, _kind: &TapKind) {}
pub fn on_commit(_o: &mut Observer, _node: usize, _b: &Block, _d: &Digest, _seq: u64) {}
pub fn on_store_write(_o: &mut Observer, _node: usize, _key: &[u8], _value: &[u8], _vh: &Digest, _seq: u64) {}
pub fn on_end(_o: &mut Observer, _end_us: u64) {}
