//! Property monitors over the frame tap, the commit channels and the store-write tap.
//!
//! Ordering discipline. A node's actors hand messages to per-destination connection tasks, so the
//! order in which frames of DIFFERENT connections reach the wire is not the order in which the
//! node decided them. Orders are therefore only compared (a) within one connection, and
//! (b) between "delivered to the node" and "written by the node", where
//! using delivered-by-then can only make an oracle more permissive.
use crate::ident::{self, Round};
use crate::net::{Phase, TapEvent, TapKind, SVC_CONSENSUS, SVC_MEMPOOL, SVC_TX};
use crate::obs::{Decoded, Observer};
use consensus::{Block, ConsensusMessage, QC, TC};
use crypto::{Digest, PublicKey};
use mempool::MempoolMessage;
use std::collections::{BTreeMap, HashMap, HashSet};

#[derive(Default)]
pub struct LinkCore {
    pub max_vote_round: Round,
    pub max_timeout_round: Round,
    pub max_acting_round: Round,
    pub max_voted_qc_round: Round,
    pub max_timeout_high_qc: Round,
    pub any_vote: bool,
    pub any_timeout: bool,
}

#[derive(Default)]
pub struct Tally {
    pub authors: HashSet<usize>,
    pub stake: u64,
}

pub struct TxRec {
    pub seq: u64,
    pub t_us: u64,
    pub conn: usize,
    pub bytes: Vec<u8>,
}

pub struct BatchRec {
    pub first_seq: u64,
    pub first_t: u64,
    pub digest: Digest,
    pub txs: Vec<Vec<u8>>,
    pub bytes_len: usize,
}

pub struct ServiceProbe {
    pub kind: char,
    pub node: usize,
    pub to: usize,
    pub digest: Digest,
    pub tx: Vec<u8>,
    pub t_us: u64,
    pub answered: bool,
}

pub struct Ext {
    pub n: usize,
    qc_memo: HashMap<Digest, bool>,
    tc_memo: HashMap<Digest, bool>,
    /// Keyed by connection: order is compared only among frames of one connection, which one
    /// sender task wrote in the order it was handed them.
    link_core: HashMap<usize, LinkCore>,
    // C03: round -> voted block, per node (wire votes and own signatures inside QCs).
    voted: Vec<HashMap<Round, Digest>>,
    // C09
    proposed: Vec<HashMap<Round, Digest>>,
    voted_author: BTreeMap<Round, PublicKey>,
    proposal_first_emission: Vec<HashMap<(usize, Digest), u64>>,
    link_prop_max_round: HashMap<(usize, usize), Round>,
    // C05
    pub children: HashMap<Digest, Vec<Digest>>,
    /// Digest of a block certified by a valid QC shown to the node -> seq of the first showing.
    qc_shown: Vec<HashMap<Digest, u64>>,
    authored: Vec<HashSet<Digest>>,
    unjustified: Vec<Vec<(Digest, Round, u64)>>,
    // C10
    evidence: Vec<Round>,
    vote_tally: Vec<HashMap<(Round, Digest), Tally>>,
    timeout_tally: Vec<HashMap<Round, Tally>>,
    // C19
    /// (node, round) -> content identity of the TC it sent for that round.
    tc_sent: HashMap<(usize, Round), Digest>,
    // C12 / C11 / C13
    pub batch_first_src: HashMap<Digest, (usize, u64)>,
    conn_reqs: HashMap<usize, Vec<Option<Digest>>>,
    pub acks: HashMap<(usize, Digest), HashMap<usize, u64>>,
    pub tx_delivered: Vec<Vec<TxRec>>,
    pub own_batches: Vec<Vec<BatchRec>>,
    pub batch_txs: HashMap<Digest, Vec<Vec<u8>>>,
    pub batch_requests: Vec<Vec<(u64, Digest)>>,
    pub sync_requests: Vec<Vec<(u64, u64, Digest, usize)>>,
    pub params: Vec<crate::scenario::NodeParams>,
    pub bounds: crate::scenario::Bounds,
    pub profile: String,
    pub crashed: Vec<Option<u64>>,
    pub seal_slack_us: u64,
    pub batch_delivered_to: HashSet<(usize, Digest)>,
    /// (node, hash of the exact frame bytes, time): every batch frame made readable to a node.
    pub batch_frames_delivered: Vec<(usize, Digest, u64)>,
    pending_votes: HashMap<Digest, Vec<(usize, usize, Round, u64)>>,
    /// Puppet world: index of the current quiescence step, and step-granular global maxima.
    pub step: u64,
    pub w2: bool,
    w2_vote: (Round, u64),
    w2_timeout: (Round, u64),
    w2_acting: (Round, u64),
    w2_qc_committed_to: (Round, u64),
    pub service_probes: Vec<ServiceProbe>,
}

impl Ext {
    pub fn new(n: usize) -> Self {
        Ext {
            n,
            qc_memo: HashMap::new(),
            tc_memo: HashMap::new(),
            link_core: HashMap::new(),
            voted: (0..n).map(|_| HashMap::new()).collect(),
            proposed: (0..n).map(|_| HashMap::new()).collect(),
            voted_author: BTreeMap::new(),
            proposal_first_emission: (0..n).map(|_| HashMap::new()).collect(),
            link_prop_max_round: HashMap::new(),
            children: HashMap::new(),
            qc_shown: (0..n).map(|_| HashMap::new()).collect(),
            authored: (0..n).map(|_| HashSet::new()).collect(),
            unjustified: (0..n).map(|_| Vec::new()).collect(),
            evidence: vec![0; n],
            vote_tally: (0..n).map(|_| HashMap::new()).collect(),
            timeout_tally: (0..n).map(|_| HashMap::new()).collect(),
            tc_sent: HashMap::new(),
            batch_first_src: HashMap::new(),
            conn_reqs: HashMap::new(),
            acks: HashMap::new(),
            tx_delivered: (0..n).map(|_| Vec::new()).collect(),
            own_batches: (0..n).map(|_| Vec::new()).collect(),
            batch_txs: HashMap::new(),
            batch_requests: (0..n).map(|_| Vec::new()).collect(),
            sync_requests: (0..n).map(|_| Vec::new()).collect(),
            params: Vec::new(),
            bounds: Default::default(),
            profile: String::new(),
            crashed: vec![None; n],
            seal_slack_us: 20_000,
            batch_delivered_to: HashSet::new(),
            batch_frames_delivered: Vec::new(),
            pending_votes: HashMap::new(),
            step: 0,
            w2: false,
            w2_vote: (0, 0),
            w2_timeout: (0, 0),
            w2_acting: (0, 0),
            w2_qc_committed_to: (0, 0),
            service_probes: Vec::new(),
        }
    }
}

fn qc_valid(o: &mut Observer, qc: &QC) -> bool {
    if ident::is_genesis_qc(qc) {
        return true;
    }
    let id = ident::content_id(qc);
    if let Some(v) = o.ext.qc_memo.get(&id) {
        return *v;
    }
    let v = ident::check_qc(qc, &o.members).is_ok();
    o.ext.qc_memo.insert(id, v);
    v
}

fn tc_valid(o: &mut Observer, tc: &TC) -> bool {
    let id = ident::content_id(tc);
    if let Some(v) = o.ext.tc_memo.get(&id) {
        return *v;
    }
    let v = ident::check_tc(tc, &o.members).is_ok();
    o.ext.tc_memo.insert(id, v);
    v
}

fn tc_max_high(tc: &TC) -> Round {
    tc.votes.iter().map(|(_, _, r)| *r).max().unwrap_or(0)
}

/// A valid QC was shown to node `i` (in any message) or emitted by it.
fn note_qc_shown(o: &mut Observer, i: usize, qc: &QC) {
    if ident::is_genesis_qc(qc) {
        return;
    }
    if qc_valid(o, qc) {
        let seq = o.last_seq;
        o.ext.qc_shown[i].entry(qc.hash.clone()).or_insert(seq);
        if o.ext.evidence[i] < qc.round {
            o.ext.evidence[i] = qc.round;
        }
    }
}

fn note_tc_shown(o: &mut Observer, i: usize, tc: &TC) {
    if tc_valid(o, tc) && o.ext.evidence[i] < tc.round {
        o.ext.evidence[i] = tc.round;
    }
}

/// C19 (validity half): every certificate an honest node emits must pass the independent check.
fn check_emitted_qc(o: &mut Observer, i: usize, qc: &QC, wherein: &str) {
    if ident::is_genesis_qc(qc) {
        return;
    }
    o.probe("C19.qc-emitted");
    if !qc_valid(o, qc) {
        let why = ident::check_qc(qc, &o.members).err().unwrap_or_default();
        o.violate("C19", "invalid-qc-emitted", Some(i), format!("node {} emitted ({}) a QC for round {} that the independent checker rejects: {}", i, wherein, qc.round, why));
    }
    // The node's own signature inside a QC is a vote it cast (C03 sees own-leader votes here).
    let me = o.members.names[i];
    if qc.votes.iter().any(|(k, _)| *k == me) && qc_valid(o, qc) {
        note_vote_cast(o, i, qc.round, &qc.hash, "own signature in an emitted QC");
    }
}

fn check_emitted_tc(o: &mut Observer, i: usize, tc: &TC, wherein: &str) {
    o.probe("C19.tc-emitted");
    if !tc_valid(o, tc) {
        let why = ident::check_tc(tc, &o.members).err().unwrap_or_default();
        o.violate("C19", "invalid-tc-emitted", Some(i), format!("node {} emitted ({}) a TC for round {} that the independent checker rejects: {}", i, wherein, tc.round, why));
    }
}

/// C03: at most one voted block per round.
fn note_vote_cast(o: &mut Observer, i: usize, round: Round, hash: &Digest, how: &str) {
    match o.ext.voted[i].get(&round) {
        Some(h) if h != hash => {
            let h = h.clone();
            o.violate(
                "C03",
                "two-votes-one-round",
                Some(i),
                format!("node {} signed votes for two blocks in round {}: {} and {} ({})", i, round, ident::short(&h), ident::short(hash), how),
            );
        }
        Some(_) => {}
        None => {
            o.ext.voted[i].insert(round, hash.clone());
        }
    }
}

/// C09, implementation-agnostic: whoever honest nodes treat as the proposer of a round (by
/// proposing in it, or by voting for a block of it) must be one and the same authority. The
/// comparison with the sorted-key round robin of the reference implementation is a probe only,
/// so that a different but consistent rotation does not raise an alarm.
fn note_round_leader(o: &mut Observer, node: usize, round: Round, leader: PublicKey, how: &str) {
    match o.ext.voted_author.get(&round) {
        Some(prev) if *prev != leader => {
            let (a, b) = (o.idx(prev), o.idx(&leader));
            o.violate("C09", "two-leaders-one-round", Some(node), format!("in round {} honest nodes acted on two different proposers: authority {:?} and authority {:?} (node {} {})", round, a, b, node, how));
        }
        Some(_) => {}
        None => {
            o.ext.voted_author.insert(round, leader);
            if o.members.leader(round) != leader {
                o.probe("C09.leader-differs-from-sorted-key-round-robin");
            }
        }
    }
}

fn msg_round(m: &ConsensusMessage) -> Round {
    match m {
        ConsensusMessage::Propose(b) => b.round,
        ConsensusMessage::Vote(v) => v.round,
        ConsensusMessage::Timeout(t) => t.round,
        ConsensusMessage::TC(t) => t.round,
        ConsensusMessage::SyncRequest(..) => 0,
    }
}

fn msg_kind(m: &ConsensusMessage) -> u64 {
    match m {
        ConsensusMessage::Propose(_) => 1,
        ConsensusMessage::Vote(_) => 2,
        ConsensusMessage::Timeout(_) => 3,
        ConsensusMessage::TC(_) => 4,
        ConsensusMessage::SyncRequest(..) => 5,
    }
}

/// C10 (evidence half): a node acting in round r > 1 must have been shown a certificate of
/// round >= r - 1, or votes / timeouts of a quorum (its own counted) from which to assemble one.
fn check_round_evidence(o: &mut Observer, i: usize, r: Round, what: &str) {
    if r <= 1 {
        return;
    }
    o.probe("C10.evidence-checked");
    if o.ext.evidence[i] + 1 < r {
        let ev = o.ext.evidence[i];
        o.violate(
            "C10",
            "round-without-certificate",
            Some(i),
            format!("node {} emitted a {} for round {} but the highest QC/TC (or quorum of votes/timeouts) it had been shown is for round {}", i, what, r, ev),
        );
    }
}

pub fn on_frame(o: &mut Observer, ev: &TapEvent, phase: Phase, fidx: u32, data: &[u8], dec: &Decoded) {
    match (ev.svc, ev.to_listener) {
        (SVC_CONSENSUS, true) => {
            if let Decoded::Cons(m) = dec {
                match phase {
                    Phase::Delivered => consensus_delivered(o, ev, m),
                    Phase::Written => consensus_written(o, ev, m),
                }
            } else if phase == Phase::Written && o.is_honest_node(ev.src()) {
                o.violate("C20", "undecodable-frame-emitted", Some(ev.src()), format!("node {} wrote a consensus frame that does not decode", ev.src()));
            }
        }
        (SVC_MEMPOOL, true) => {
            if let Decoded::Memp(m) = dec {
                mempool_frame(o, ev, phase, fidx, data, m);
            } else if phase == Phase::Written {
                o.ext.conn_reqs.entry(ev.conn).or_default().push(None);
            }
        }
        (SVC_MEMPOOL, false) => {
            // A reply (ACK) written by the listener: pairs with the request of the same index.
            if phase == Phase::Written {
                let d = o.ext.conn_reqs.get(&ev.conn).and_then(|v| v.get(fidx as usize)).cloned().flatten();
                if let Some(d) = d {
                    o.ext.acks.entry((ev.dialer, d)).or_default().entry(ev.listener).or_insert(ev.seq);
                    o.probe("C12.ack-seen");
                }
            }
        }
        (SVC_TX, true) => {
            if phase == Phase::Delivered && ev.listener < o.n {
                o.ext.tx_delivered[ev.listener].push(TxRec { seq: ev.seq, t_us: ev.t_us, conn: ev.conn, bytes: data.to_vec() });
                o.probe("tx.delivered");
            }
        }
        _ => {}
    }
}

fn consensus_delivered(o: &mut Observer, ev: &TapEvent, m: &ConsensusMessage) {
    let i = ev.dst();
    if i >= o.n {
        return;
    }
    o.fold_sig(&[msg_kind(m), i as u64, msg_round(m)]);
    if !o.is_honest_node(i) {
        return;
    }
    match m {
        ConsensusMessage::Propose(b) => {
            note_qc_shown(o, i, &b.qc);
            if let Some(tc) = &b.tc {
                note_tc_shown(o, i, tc);
            }
        }
        ConsensusMessage::Vote(v) => {
            // Tally valid votes addressed to i (it may assemble a QC from them).
            if let Some(a) = o.idx(&v.author) {
                if ident::verify_sig(&ident::vote_digest(&v.hash, v.round), &v.author, &v.signature) {
                    let stake = o.members.stakes[a] as u64;
                    let own = o.members.stakes[i] as u64;
                    let q = o.members.quorum();
                    let t = o.ext.vote_tally[i].entry((v.round, v.hash.clone())).or_default();
                    if t.authors.insert(a) {
                        t.stake += stake;
                    }
                    let has_own = t.authors.contains(&i);
                    if t.stake + if has_own { 0 } else { own } >= q {
                        let seq = o.last_seq;
                        o.ext.qc_shown[i].entry(v.hash.clone()).or_insert(seq);
                        if o.ext.evidence[i] < v.round {
                            o.ext.evidence[i] = v.round;
                        }
                    }
                }
            }
        }
        ConsensusMessage::Timeout(t) => {
            note_qc_shown(o, i, &t.high_qc);
            if let Some(a) = o.idx(&t.author) {
                if ident::verify_sig(&ident::timeout_digest(t.round, t.high_qc.round), &t.author, &t.signature) {
                    let stake = o.members.stakes[a] as u64;
                    let own = o.members.stakes[i] as u64;
                    let q = o.members.quorum();
                    let e = o.ext.timeout_tally[i].entry(t.round).or_default();
                    if e.authors.insert(a) {
                        e.stake += stake;
                    }
                    let has_own = e.authors.contains(&i);
                    if e.stake + if has_own { 0 } else { own } >= q && o.ext.evidence[i] < t.round {
                        o.ext.evidence[i] = t.round;
                    }
                }
            }
        }
        ConsensusMessage::TC(tc) => note_tc_shown(o, i, tc),
        ConsensusMessage::SyncRequest(..) => {}
    }
}

fn consensus_written(o: &mut Observer, ev: &TapEvent, m: &ConsensusMessage) {
    let i = ev.src();
    if !o.is_honest_node(i) {
        return;
    }
    let dst = ev.dst();
    let me = o.members.names[i];
    match m {
        ConsensusMessage::Propose(b) => {
            let d = ident::block_digest(b);
            if b.author == me {
                // Own proposal (reliable broadcast; retransmissions repeat earlier frames).
                for p in o.ext.service_probes.iter_mut() {
                    if p.kind == 'b' && !p.answered && p.node == i && p.to == dst && p.digest == d {
                        p.answered = true;
                    }
                }
                o.ext.authored[i].insert(d.clone());
                o.ext.children.entry(b.qc.hash.clone()).or_default();
                let first = !o.ext.proposal_first_emission[i].contains_key(&(dst, d.clone()));
                if first {
                    o.ext.proposal_first_emission[i].insert((dst, d.clone()), ev.seq);
                }
                // C09: no equivocation.
                match o.ext.proposed[i].get(&b.round) {
                    Some(prev) if *prev != d => {
                        let prev = prev.clone();
                        o.violate("C09", "equivocation", Some(i), format!("node {} proposed two different blocks for round {}: {} and {}", i, b.round, ident::short(&prev), ident::short(&d)));
                    }
                    Some(_) => {}
                    None => {
                        o.ext.proposed[i].insert(b.round, d.clone());
                        o.probe("C09.proposal");
                        // C10 (monotonic half): a block's first appearance anywhere on the wire
                        // follows its creation order (the proposer waits for a quorum of ACKs
                        // before making the next block; helper re-sends are never first).
                        let prev = o.ext.link_prop_max_round.get(&(i, usize::MAX)).cloned().unwrap_or(0);
                        if b.round <= prev {
                            o.violate("C10", "proposal-round-regressed", Some(i), format!("node {} first emitted a proposal of round {} after one of round {}", i, b.round, prev));
                        }
                        o.ext.link_prop_max_round.insert((i, usize::MAX), prev.max(b.round));
                        // C09: proposals only as the leader of the round.
                        note_round_leader(o, i, b.round, me, "proposed in it");
                        // C19: certificates inside own proposals.
                        check_emitted_qc(o, i, &b.qc, "in its proposal");
                        note_qc_shown(o, i, &b.qc);
                        if o.ext.w2 {
                            let step = o.ext.step;
                            if b.qc.round > o.ext.w2_qc_committed_to.0 {
                                o.ext.w2_qc_committed_to = (b.qc.round, step);
                            }
                            let (ar, as_) = o.ext.w2_acting;
                            if as_ < step && ar > b.round {
                                o.violate("C10", "acting-round-regressed", Some(i), format!("node {} proposed for round {} in step {} after acting in round {} in step {}", i, b.round, step, ar, as_));
                            }
                            if b.round > ar {
                                o.ext.w2_acting = (b.round, step);
                            }
                        }
                        if let Some(tc) = &b.tc {
                            check_emitted_tc(o, i, tc, "in its proposal");
                        }
                        // C10: evidence for proposing in this round.
                        check_round_evidence(o, i, b.round, "proposal");
                        // C12 / C11: every own-batch digest it proposes was acknowledged by a quorum
                        // and is stored content-addressed.
                        for x in &b.payload {
                            check_proposed_digest(o, i, x, ev.seq);
                        }
                        if !ident::verify_sig(&d, &me, &b.signature) {
                            o.violate("C20", "own-proposal-bad-signature", Some(i), format!("node {} emitted a proposal for round {} whose signature does not verify", i, b.round));
                        }
                    }
                }
            } else {
                // A block of another author leaving node i: a sync reply by its helper.
                o.probe("C07.sync-reply");
                for p in o.ext.service_probes.iter_mut() {
                    if p.kind == 'b' && !p.answered && p.node == i && p.to == dst && p.digest == d {
                        p.answered = true;
                    }
                }
                let cid = ident::content_id(b);
                let author_honest = o.idx(&b.author).map_or(false, |a| o.is_honest_node(a));
                let orig = o.blocks.get(&d).map(|r| ident::content_id(&r.block));
                if author_honest && orig.map_or(false, |x| x != cid) {
                    o.violate("C07", "sync-reply-differs", Some(i), format!("node {} served block {} of round {} with content different from the block its (honest) author proposed", i, ident::short(&d), b.round));
                }
                crate::monitors_sync::on_sync_reply(o, i, dst, &d, ev.seq);
            }
        }
        ConsensusMessage::Vote(v) => {
            o.probe("C03.vote-on-wire");
            if v.author != me {
                o.violate("C03", "vote-with-foreign-author", Some(i), format!("node {} sent a vote naming another author", i));
                return;
            }
            if !ident::verify_sig(&ident::vote_digest(&v.hash, v.round), &me, &v.signature) {
                o.violate("C20", "own-vote-bad-signature", Some(i), format!("node {} emitted a vote for round {} whose signature does not verify", i, v.round));
            }
            note_vote_cast(o, i, v.round, &v.hash, "vote on the wire");
            // A vote names a digest; the digest does not bind the TC, the QC's votes or the block
            // signature, so the vote is judged against every variant seen under that digest: it is
            // fine if one of them is safe to vote for (resp. is the leader's correctly signed block).
            let (qc_round, ok_shape, author, sig_ok, known, payload) = match o.variants.get(&v.hash) {
                Some(vs) if !vs.is_empty() => {
                    let shape_ok = |b: &Block| {
                        let direct = b.qc.round + 1 == b.round;
                        let via_tc = b.tc.as_ref().map_or(false, |tc| tc.round + 1 == b.round && b.qc.round >= tc_max_high(tc));
                        (direct || via_tc) && b.qc.round < b.round && b.round == v.round
                    };
                    let any_shape = vs.iter().any(|b| shape_ok(b));
                    let any_sig = vs.iter().any(|b| ident::verify_sig(&v.hash, &b.author, &b.signature));
                    let b0 = &vs[0];
                    // The QC round the vote commits the node to: the lowest among the variants it
                    // may legitimately have voted for (the permissive choice).
                    let qr = vs.iter().filter(|b| shape_ok(b)).map(|b| b.qc.round).min().unwrap_or(b0.qc.round);
                    (qr, any_shape, b0.author, any_sig, true, b0.payload.clone())
                }
                _ => (0, false, PublicKey::default(), false, false, Vec::new()),
            };
            if !known {
                // The block has not crossed the wire yet (a leader's own vote can overtake its
                // proposal when the reliable connections are still being established): the
                // content checks are made when the block shows up.
                o.probe("C03.vote-before-block-seen");
                o.ext.pending_votes.entry(v.hash.clone()).or_default().push((i, dst, v.round, ev.seq));
            } else {
                if !ok_shape {
                    o.violate(
                        "C03",
                        "unsafe-extension",
                        Some(i),
                        format!("node {} voted for block {} of round {} whose QC is of round {} and whose TC does not justify the gap", i, ident::short(&v.hash), v.round, qc_round),
                    );
                }
                // C09: only the leader's correctly signed block.
                if !sig_ok {
                    o.violate("C09", "vote-for-unsigned-block", Some(i), format!("node {} voted in round {} for a block that its author did not sign", i, v.round));
                }
                note_round_leader(o, i, v.round, author, "voted for its block");
                // C08: data availability at the instant the vote leaves.
                if author != me {
                    for x in &payload {
                        o.probe("C08.payload-digest-checked");
                        if !o.nodes[i].store.contains_key(&x.0.to_vec()) {
                            o.violate("C08", "vote-without-batch", Some(i), format!("node {} voted for block {} (round {}) while batch {} is not in its store", i, ident::short(&v.hash), v.round, ident::short(x)));
                        }
                    }
                    if payload.is_empty() {
                        o.probe("C08.vote-empty-payload");
                    } else {
                        o.probe("C08.vote-nonempty-payload");
                    }
                }
            }
            check_round_evidence(o, i, v.round, "vote");
            if o.ext.w2 {
                // Quiescence-stepped world: everything emitted in an earlier step was decided
                // earlier, whatever the connection.
                let step = o.ext.step;
                let (vr, vs) = o.ext.w2_vote;
                let (tr, ts) = o.ext.w2_timeout;
                let (ar, as_) = o.ext.w2_acting;
                if vs < step && vr >= v.round && vr > 0 {
                    o.violate("C03", "vote-round-not-increasing", Some(i), format!("node {} voted for round {} in step {} after voting for round {} in step {}", i, v.round, step, vr, vs));
                }
                if ts < step && tr >= v.round && tr > 0 {
                    o.violate("C03", "vote-after-timeout", Some(i), format!("node {} voted for round {} in step {} after its timeout for round {} in step {}", i, v.round, step, tr, ts));
                }
                if as_ < step && ar > v.round {
                    o.violate("C10", "acting-round-regressed", Some(i), format!("node {} voted for round {} in step {} after acting in round {} in step {}", i, v.round, step, ar, as_));
                }
                if v.round > vr {
                    o.ext.w2_vote = (v.round, step);
                }
                if v.round > ar {
                    o.ext.w2_acting = (v.round, step);
                }
                if qc_round > o.ext.w2_qc_committed_to.0 {
                    o.ext.w2_qc_committed_to = (qc_round, step);
                }
            }
            let lk = o.ext.link_core.entry(ev.conn).or_default();
            let mut msgs: Vec<(&str, &str, String)> = Vec::new();
            if lk.any_vote && v.round <= lk.max_vote_round {
                msgs.push(("C03", "vote-round-not-increasing", format!("node {} sent to {} a vote for round {} after a vote for round {}", i, dst, v.round, lk.max_vote_round)));
            }
            if lk.any_timeout && v.round <= lk.max_timeout_round {
                msgs.push(("C03", "vote-after-timeout", format!("node {} sent to {} a vote for round {} after its timeout for round {}", i, dst, v.round, lk.max_timeout_round)));
            }
            if v.round < lk.max_acting_round {
                msgs.push(("C10", "acting-round-regressed", format!("node {} sent to {} a vote for round {} after acting in round {}", i, dst, v.round, lk.max_acting_round)));
            }
            lk.any_vote = true;
            lk.max_vote_round = lk.max_vote_round.max(v.round);
            lk.max_acting_round = lk.max_acting_round.max(v.round);
            lk.max_voted_qc_round = lk.max_voted_qc_round.max(qc_round);
            for (p, r, d) in msgs {
                o.violate(p, r, Some(i), d);
            }
        }
        ConsensusMessage::Timeout(t) => {
            o.probe("C10.timeout-on-wire");
            if t.author != me {
                o.violate("C10", "timeout-with-foreign-author", Some(i), format!("node {} sent a timeout naming another author", i));
                return;
            }
            if !ident::verify_sig(&ident::timeout_digest(t.round, t.high_qc.round), &me, &t.signature) {
                o.violate("C20", "own-timeout-bad-signature", Some(i), format!("node {} emitted a timeout for round {} whose signature does not verify", i, t.round));
            }
            check_emitted_qc(o, i, &t.high_qc, "in its timeout");
            check_round_evidence(o, i, t.round, "timeout");
            if o.ext.w2 {
                let step = o.ext.step;
                let (ar, as_) = o.ext.w2_acting;
                let (qr, qs) = o.ext.w2_qc_committed_to;
                if as_ < step && ar > t.round {
                    o.violate("C10", "acting-round-regressed", Some(i), format!("node {} sent a timeout for round {} in step {} after acting in round {} in step {}", i, t.round, step, ar, as_));
                }
                if qs < step && t.high_qc.round < qr {
                    o.violate("C10", "timeout-high-qc-below-known", Some(i), format!("node {} sent in step {} a timeout carrying a QC of round {} after having voted for / sent a QC of round {} in step {}", i, step, t.high_qc.round, qr, qs));
                }
                if t.round > o.ext.w2_timeout.0 {
                    o.ext.w2_timeout = (t.round, step);
                }
                if t.round > ar {
                    o.ext.w2_acting = (t.round, step);
                }
                if t.high_qc.round > o.ext.w2_qc_committed_to.0 {
                    o.ext.w2_qc_committed_to = (t.high_qc.round, step);
                }
            }
            let lk = o.ext.link_core.entry(ev.conn).or_default();
            let mut msgs: Vec<(&str, &str, String)> = Vec::new();
            if t.round < lk.max_acting_round {
                msgs.push(("C10", "acting-round-regressed", format!("node {} sent to {} a timeout for round {} after acting in round {}", i, dst, t.round, lk.max_acting_round)));
            }
            if t.high_qc.round < lk.max_voted_qc_round {
                msgs.push((
                    "C10",
                    "timeout-high-qc-below-voted",
                    format!("node {} sent to {} a timeout for round {} carrying a QC of round {} after voting for a block whose QC is of round {}", i, dst, t.round, t.high_qc.round, lk.max_voted_qc_round),
                ));
            }
            if t.high_qc.round < lk.max_timeout_high_qc {
                msgs.push((
                    "C10",
                    "timeout-high-qc-regressed",
                    format!("node {} sent to {} a timeout carrying a QC of round {} after one carrying a QC of round {}", i, dst, t.high_qc.round, lk.max_timeout_high_qc),
                ));
            }
            if t.high_qc.round >= t.round {
                msgs.push(("C10", "timeout-high-qc-not-below-round", format!("node {} sent a timeout for round {} carrying a QC of round {}", i, t.round, t.high_qc.round)));
            }
            lk.any_timeout = true;
            lk.max_timeout_round = lk.max_timeout_round.max(t.round);
            lk.max_acting_round = lk.max_acting_round.max(t.round);
            lk.max_timeout_high_qc = lk.max_timeout_high_qc.max(t.high_qc.round);
            for (p, r, d) in msgs {
                o.violate(p, r, Some(i), d);
            }
        }
        ConsensusMessage::TC(tc) => {
            o.probe("C19.tc-broadcast");
            check_emitted_tc(o, i, tc, "as a broadcast");
            // A certificate is assembled at most once per round: whatever the node sends for one
            // round (to all peers, or again later to a peer that lags) must be the same TC.
            let cid = ident::content_id(tc);
            match o.ext.tc_sent.get(&(i, tc.round)) {
                Some(prev) if *prev != cid => {
                    o.violate("C19", "two-different-tcs-for-one-round", Some(i), format!("node {} sent two different TCs for round {}", i, tc.round));
                }
                Some(_) => {}
                None => {
                    o.ext.tc_sent.insert((i, tc.round), cid);
                }
            }
        }
        ConsensusMessage::SyncRequest(d, origin) => {
            o.probe("C07.sync-request");
            if *origin != me {
                o.violate("C07", "sync-request-foreign-origin", Some(i), format!("node {} sent a sync request naming another origin", i));
            }
            o.ext.sync_requests[i].push((ev.seq, ev.t_us, d.clone(), dst));
        }
    }
}

/// C12 / C11 at the instant an own proposal carrying digest `x` leaves node `i`.
fn check_proposed_digest(o: &mut Observer, i: usize, x: &Digest, seq: u64) {
    o.probe("C11.proposed-digest");
    match o.nodes[i].store.get(&x.0.to_vec()) {
        None => {
            o.violate("C11", "proposed-digest-not-stored", Some(i), format!("node {} proposed digest {} which is not a key of its store", i, ident::short(x)));
        }
        Some((_, vh, _)) => {
            if vh != x {
                o.violate("C11", "proposed-digest-not-content-address", Some(i), format!("node {} proposed digest {} whose stored value hashes to {}", i, ident::short(x), ident::short(vh)));
            }
        }
    }
    if o.ext.batch_first_src.get(x).map(|(s, _)| *s) == Some(i) {
        check_ack_quorum(o, i, x, seq, "proposed");
    }
}

fn check_ack_quorum(o: &mut Observer, i: usize, d: &Digest, seq: u64, when: &str) {
    let mut stake = o.members.stakes[i] as u64;
    let mut who = Vec::new();
    if let Some(m) = o.ext.acks.get(&(i, d.clone())) {
        for (j, s) in m {
            if *s < seq && *j < o.n {
                stake += o.members.stakes[*j] as u64;
                who.push(*j);
            }
        }
    }
    o.probe("C12.quorum-checked");
    if stake < o.members.quorum() {
        who.sort();
        // Two different histories: the node's own dissemination path released the batch, or a
        // copy of its own batch came back from a peer and went through the path for foreign
        // batches (which does not wait for acknowledgements).
        let reentered = o.ext.batch_delivered_to.contains(&(i, d.clone()));
        let rule = if reentered { "own-batch-reentered-via-peer-below-quorum" } else { "own-batch-released-below-quorum" };
        o.violate(
            "C12",
            rule,
            Some(i),
            format!(
                "node {} {} its own batch {} when acknowledgements had been sent only by {:?} (stake {} with its own, quorum {}){}",
                i,
                when,
                ident::short(d),
                who,
                stake,
                o.members.quorum(),
                if reentered { "; a copy of the batch had been delivered back to it by a peer" } else { "" }
            ),
        );
    }
}

fn mempool_frame(o: &mut Observer, ev: &TapEvent, phase: Phase, _fidx: u32, data: &[u8], m: &MempoolMessage) {
    let src = ev.src();
    match m {
        MempoolMessage::Batch(txs) => {
            let d = ident::bytes_digest(data);
            if phase == Phase::Written {
                for p in o.ext.service_probes.iter_mut() {
                    if !p.answered && p.node == src && ((p.kind == 'm' && p.to == ev.dst() && p.digest == d) || (p.kind == 't' && txs.iter().any(|t| *t == p.tx))) {
                        p.answered = true;
                    }
                }
                o.ext.conn_reqs.entry(ev.conn).or_default().push(Some(d.clone()));
                if !o.ext.batch_first_src.contains_key(&d) {
                    o.ext.batch_first_src.insert(d.clone(), (src, ev.seq));
                    o.ext.batch_txs.insert(d.clone(), txs.clone());
                    if o.is_honest_node(src) {
                        o.probe("C11.own-batch");
                        o.ext.own_batches[src].push(BatchRec { first_seq: ev.seq, first_t: ev.t_us, digest: d.clone(), txs: txs.clone(), bytes_len: data.len() });
                        crate::monitors_batch::on_own_batch(o, src);
                    }
                } else if o.ext.batch_first_src.get(&d).map(|(s, _)| *s) != Some(src) {
                    o.probe("C13.batch-served-by-helper");
                }
            } else {
                o.fold_sig(&[11, ev.dst() as u64, txs.len() as u64]);
                o.ext.batch_delivered_to.insert((ev.dst(), d.clone()));
                if ev.dst() < o.n && o.ext.batch_frames_delivered.len() < 100_000 {
                    o.ext.batch_frames_delivered.push((ev.dst(), d.clone(), ev.t_us));
                }
            }
        }
        MempoolMessage::BatchRequest(ds, origin) => {
            if phase == Phase::Written {
                o.ext.conn_reqs.entry(ev.conn).or_default().push(None);
                if o.is_honest_node(src) {
                    o.probe("C13.batch-request");
                    if *origin != o.members.names[src] {
                        o.violate("C13", "batch-request-foreign-origin", Some(src), format!("node {} sent a batch request naming another origin", src));
                    }
                    for d in ds {
                        o.ext.batch_requests[src].push((ev.seq, d.clone()));
                    }
                }
            } else {
                o.fold_sig(&[12, ev.dst() as u64, ds.len() as u64]);
            }
        }
    }
}

/// Votes that overtook their block on the wire are judged when the block becomes known.
pub fn on_block_learned(o: &mut Observer, d: &Digest) {
    let pend = match o.ext.pending_votes.remove(d) {
        Some(p) => p,
        None => return,
    };
    let (qc_round, round, ok_shape, author, sig_ok) = {
        let rec = &o.blocks[d];
        let b = &rec.block;
        let direct = b.qc.round + 1 == b.round;
        let via_tc = b.tc.as_ref().map_or(false, |tc| tc.round + 1 == b.round && b.qc.round >= tc_max_high(tc));
        (b.qc.round, b.round, (direct || via_tc) && b.qc.round < b.round, b.author, ident::verify_sig(&rec.digest, &b.author, &b.signature))
    };
    for (i, _dst, vround, _seq) in pend {
        if !ok_shape || vround != round {
            o.violate("C03", "unsafe-extension", Some(i), format!("node {} voted for block {} of round {} whose QC is of round {} and whose TC does not justify the gap", i, ident::short(d), vround, qc_round));
        }
        if !sig_ok {
            o.violate("C09", "vote-for-unsigned-block", Some(i), format!("node {} voted in round {} for a block that its author did not sign", i, vround));
        }
        note_round_leader(o, i, vround, author, "voted for its block");
    }
}

pub fn on_conn_event(o: &mut Observer, ev: &TapEvent, kind: &TapKind) {
    if let TapKind::Reset { .. } = kind {
        o.probe("conn.reset");
    }
    let _ = ev;
}

/// C05: is the delivery of block `d` by `node` at sequence number `upto` justified? `d` itself
/// (direct) or a descendant D must have a child K with K.round == D.round + 1 that a valid QC
/// certified in a message shown to the node no later than `upto`.
fn commit_justified(o: &Observer, node: usize, d: &Digest, upto: u64) -> (bool, bool) {
    let mut direct = false;
    let mut found = false;
    let mut frontier: Vec<Digest> = vec![d.clone()];
    let mut seen: HashSet<Digest> = HashSet::new();
    let mut steps = 0;
    while let Some(cur) = frontier.pop() {
        steps += 1;
        if steps > 20_000 || !seen.insert(cur.clone()) {
            continue;
        }
        let cur_round = match o.blocks.get(&cur) {
            Some(r) => r.round,
            None => continue,
        };
        if let Some(kids) = o.ext.children.get(&cur) {
            for k in kids {
                if o.blocks.get(k).map_or(false, |r| r.round == cur_round + 1) && o.ext.qc_shown[node].get(k).map_or(false, |s| *s <= upto) {
                    found = true;
                    if cur == *d {
                        direct = true;
                    }
                }
                frontier.push(k.clone());
            }
        }
        if direct {
            break;
        }
    }
    (direct, found)
}

pub fn on_commit(o: &mut Observer, node: usize, b: &Block, d: &Digest, seq: u64) {
    if !o.is_honest_node(node) {
        return;
    }
    // ---- C05: commit only on a certified consecutive-round 2-chain (or as an ancestor) -------
    // Judged at the moment of delivery: B itself or a descendant D of B must have a child K with
    // K.round == D.round + 1 whose digest is certified by a valid QC node has already been shown
    // (in any message, or assembled from the votes delivered to it). A certificate shown only
    // afterwards does not count: ancestors are delivered in the same commit call as, and right
    // before, the block whose 2-chain triggered it, so the certificate is always there first.
    o.ext.children.entry(b.qc.hash.clone()).or_default();
    let (direct, justified) = commit_justified(o, node, d, seq);
    if direct {
        o.probe("C05.direct-commit");
    } else if justified {
        o.probe("C05.ancestor-commit");
    } else {
        // The certified child may be a block the observer has not seen yet (a leader's own
        // block is certified from its vote before the proposal has reached any wire); judged
        // again at the end of the run, still only with certificates shown before this commit.
        o.ext.unjustified[node].push((d.clone(), b.round, seq));
    }
    // ---- C08: data availability at commit ----------------------------------------------------
    for x in &b.payload {
        o.probe("C08.commit-digest-checked");
        if !o.nodes[node].store.contains_key(&x.0.to_vec()) {
            o.violate("C08", "commit-without-batch", Some(node), format!("node {} delivered block {} (round {}) while batch {} is not in its store", node, ident::short(d), b.round, ident::short(x)));
        }
    }
    if !b.payload.is_empty() {
        o.probe("C08.commit-nonempty-payload");
    }
    if b.payload.len() > 32 {
        o.probe("commit.payload-over-32-digests");
    }
    crate::monitors_batch::on_commit(o, node, b);
}

pub fn on_store_write(o: &mut Observer, node: usize, key: &[u8], value: &[u8], vh: &Digest, seq: u64) {
    if !o.is_honest_node(node) {
        return;
    }
    // ---- C11: content addressing of everything the mempool stores ---------------------------
    if key == vh.0 {
        o.probe("C11.batch-stored");
        if let Some(MempoolMessage::Batch(txs)) = crate::obs::safe_deserialize::<MempoolMessage>(value) {
            crate::monitors_batch::on_batch_stored(o, node, vh, &txs);
        }
        // Own batch? Then a quorum must have acknowledged it by now (C12).
        if o.ext.batch_first_src.get(vh).map(|(s, _)| *s) == Some(node) {
            o.probe("C12.own-batch-stored");
            check_ack_quorum(o, node, vh, seq, "stored (made deliverable)");
        }
    } else {
        // Not content-addressed: it must be a consensus block stored under its digest.
        match crate::obs::safe_deserialize::<Block>(value) {
            Some(b) if ident::block_digest(&b).0 == key => {
                o.probe("store.block-written");
            }
            _ => {
                let is_batch = crate::obs::safe_deserialize::<MempoolMessage>(value).map_or(false, |m| matches!(m, MempoolMessage::Batch(_)));
                let kd = {
                    let mut k = [0u8; 32];
                    let n = key.len().min(32);
                    k[..n].copy_from_slice(&key[..n]);
                    Digest(k)
                };
                if is_batch {
                    o.violate("C11", "batch-stored-under-wrong-key", Some(node), format!("node {} stored a batch under key {} but its bytes hash to {}", node, ident::short(&kd), ident::short(vh)));
                } else {
                    o.violate("C20", "block-stored-under-wrong-key", Some(node), format!("node {} stored a value under key {} that is neither its hash nor a block with that digest", node, ident::short(&kd)));
                }
            }
        }
    }
}

pub fn on_end(o: &mut Observer, end_us: u64) {
    // C15: services must still work after hostile input.
    let probes = std::mem::take(&mut o.ext.service_probes);
    for p in &probes {
        let ok = match p.kind {
            'c' => o.nodes[p.node].commits.iter().any(|c| c.t_us > p.t_us),
            _ => p.answered,
        };
        if ok {
            o.probe(&format!("C15.service-ok.{}", p.kind));
        } else {
            let what = match p.kind {
                'b' => "did not answer a sync request for a block it stores",
                'm' => "did not answer a batch request for a batch it stores",
                't' => "did not put a fresh client transaction into a batch",
                _ => "committed nothing any more",
            };
            o.violate("C15", &format!("service-down.{}", p.kind), Some(p.node), format!("after the hostile input node {} {} (probe at {} us, run ended at {} us)", p.node, what, p.t_us, end_us));
        }
    }
    // C05: commits that no certified consecutive 2-chain justifies.
    for i in 0..o.n {
        if !o.is_honest_node(i) {
            continue;
        }
        let pending = std::mem::take(&mut o.ext.unjustified[i]);
        for (d, r, seq) in pending {
            if commit_justified(o, i, &d, seq).1 {
                o.probe("C05.justified-by-block-seen-later");
                continue;
            }
            o.violate("C05", "commit-without-2-chain", Some(i), format!("node {} committed block {} of round {} without having been shown a QC for a child of round {} (and it is no ancestor of a block committed that way)", i, ident::short(&d), r, r + 1));
        }
    }
    // C09: rotation over windows of n consecutive voted rounds.
    let n = o.n as u64;
    let rounds: Vec<(Round, PublicKey)> = o.ext.voted_author.iter().map(|(r, a)| (*r, *a)).collect();
    for w in rounds.windows(o.n) {
        if w[o.n - 1].0 - w[0].0 == n - 1 {
            let distinct: HashSet<PublicKey> = w.iter().map(|(_, a)| *a).collect();
            o.probe("C09.rotation-window");
            if distinct.len() != o.n {
                o.violate("C09", "rotation", None, format!("rounds {}..{} were led by only {} distinct authorities", w[0].0, w[o.n - 1].0, distinct.len()));
            }
        }
    }
    crate::monitors_batch::on_end(o, end_us);
    crate::monitors_sync::on_end(o, end_us);
}
