//! C11 (batching: conservation, order, seal rules) and C13 (end to end) monitors.
//!
//! Two observation points are combined. (1) The wire: the first time a batch appears in a frame
//! written by a node gives the instant it was sealed (for the seal rules) and its content.
//! (2) The store tap: every batch a node's own dissemination path releases is written to its
//! store exactly once, in seal order; batches are attributed to their creator by content (the
//! generators make every non-empty transaction unique and give empty transactions to one node
//! only), so identical batches sealed twice are still counted twice.
use crate::ident;
use crate::obs::Observer;
use consensus::Block;
use crypto::Digest;
use std::collections::{HashMap, HashSet};

#[derive(Default)]
pub struct BatchState {
    /// Per node: cursor (over the non-empty transactions) of each client connection.
    next_of_conn: Vec<HashMap<usize, usize>>,
    /// Per node: how often each transaction content was seen in a released own batch.
    released: Vec<HashMap<Vec<u8>, u32>>,
    /// Per node: how often each content was seen in an own batch first written on the wire.
    sealed_on_wire: Vec<HashMap<Vec<u8>, u32>>,
    /// Per node: digests of released own batches that contain a unique transaction.
    released_digests: Vec<HashSet<Digest>>,
    pub committed_digests: Vec<HashSet<Digest>>,
    processed_tx: Vec<usize>,
    /// Per node: content -> [(connection, position among the non-empty ones, delivery time)].
    index: Vec<HashMap<Vec<u8>, Vec<(usize, usize, u64)>>>,
    conn_len: Vec<HashMap<usize, usize>>,
    empties_delivered: Vec<u32>,
    /// Released empty transactions: certain (lower bound) and possible (upper bound) counts.
    empties_released_min: Vec<u32>,
    empties_released_max: Vec<u32>,
    /// Order is no longer judged for a node once a copy of one of its own batches came back
    /// from a peer (own-path and foreign-path writes can then not be told apart).
    order_disabled: Vec<bool>,
}

thread_local! {
    static STATE: std::cell::RefCell<BatchState> = std::cell::RefCell::new(BatchState::default());
}

pub fn reset(n: usize) {
    STATE.with(|s| {
        *s.borrow_mut() = BatchState {
            next_of_conn: (0..n).map(|_| HashMap::new()).collect(),
            released: (0..n).map(|_| HashMap::new()).collect(),
            sealed_on_wire: (0..n).map(|_| HashMap::new()).collect(),
            released_digests: (0..n).map(|_| HashSet::new()).collect(),
            committed_digests: (0..n).map(|_| HashSet::new()).collect(),
            processed_tx: vec![0; n],
            index: (0..n).map(|_| HashMap::new()).collect(),
            conn_len: (0..n).map(|_| HashMap::new()).collect(),
            empties_delivered: vec![0; n],
            empties_released_min: vec![0; n],
            empties_released_max: vec![0; n],
            order_disabled: vec![false; n],
        }
    });
}

fn refresh_index(o: &Observer, st: &mut BatchState, node: usize) {
    let list = &o.ext.tx_delivered[node];
    while st.processed_tx[node] < list.len() {
        let rec = &list[st.processed_tx[node]];
        st.processed_tx[node] += 1;
        if rec.bytes.is_empty() {
            st.empties_delivered[node] += 1;
            continue;
        }
        let pos = {
            let e = st.conn_len[node].entry(rec.conn).or_insert(0);
            let p = *e;
            *e += 1;
            p
        };
        st.index[node].entry(rec.bytes.clone()).or_default().push((rec.conn, pos, rec.t_us));
    }
}

/// A new own batch of `node` appeared on the wire (its record is the last of own_batches[node]).
pub fn on_own_batch(o: &mut Observer, node: usize) {
    let (txs, first_t, digest) = {
        let b = o.ext.own_batches[node].last().unwrap();
        (b.txs.clone(), b.first_t, b.digest.clone())
    };
    let params = o.ext.params.get(node).cloned();
    let strict_timing = o.ext.profile == "C11";
    let mut viol: Vec<(&str, String)> = Vec::new();
    STATE.with(|s| {
        let mut st = s.borrow_mut();
        if st.index.len() != o.n {
            return;
        }
        refresh_index(o, &mut st, node);
        // Seal rule (size): before its last transaction the batch was below the threshold.
        if let Some(p) = &params {
            let total: usize = txs.iter().map(|t| t.len()).sum();
            let last = txs.last().map_or(0, |t| t.len());
            if !txs.is_empty() && total - last >= p.batch_size {
                viol.push(("sealed-late", format!("node {} sealed batch {} of {} B whose prefix without the last transaction ({} B) already reached batch_size {}", node, ident::short(&digest), total, total - last, p.batch_size)));
            }
            if txs.is_empty() {
                viol.push(("empty-batch", format!("node {} broadcast an empty batch", node)));
            }
        }
        for tx in &txs {
            *st.sealed_on_wire[node].entry(tx.clone()).or_insert(0) += 1;
            if tx.is_empty() {
                if st.empties_delivered[node] == 0 {
                    viol.push(("tx-not-submitted", format!("node {} put an empty transaction into batch {} but no client had delivered one to it", node, ident::short(&digest))));
                }
                continue;
            }
            let occurrences = st.index[node].get(tx).cloned().unwrap_or_default();
            if occurrences.is_empty() {
                viol.push(("tx-not-submitted", format!("node {} put a {}-byte transaction into batch {} that no client had delivered to it", node, tx.len(), ident::short(&digest))));
                continue;
            }
            if strict_timing && occurrences.len() == 1 {
                if let Some(p) = &params {
                    let t_del = occurrences[0].2;
                    let bound = t_del + p.max_batch_delay * 1_000 + o.ext.seal_slack_us;
                    if first_t > bound {
                        viol.push(("sealed-after-max-delay", format!("node {}: a transaction delivered at {} us reached the wire in a batch only at {} us (max_batch_delay {} ms)", node, t_del, first_t, p.max_batch_delay)));
                    }
                }
            }
        }
    });
    for (r, d) in viol {
        o.violate("C11", r, Some(node), d);
    }
}

/// A batch was written to `node`'s store. If its content attributes it to `node` itself it is a
/// batch released by the node's own dissemination path: conservation and order are checked here.
pub fn on_batch_stored(o: &mut Observer, node: usize, digest: &Digest, txs: &[Vec<u8>]) {
    let mut viol: Vec<(&str, String)> = Vec::new();
    // A copy of this very batch was delivered to the node by a peer: a second store write may
    // be that copy (only distinguishable when the batch holds a unique transaction).
    let came_back = o.ext.batch_delivered_to.contains(&(node, digest.clone()));
    STATE.with(|s| {
        let mut st = s.borrow_mut();
        if st.index.len() != o.n {
            return;
        }
        refresh_index(o, &mut st, node);
        let nonempty: Vec<&Vec<u8>> = txs.iter().filter(|t| !t.is_empty()).collect();
        let own = if nonempty.is_empty() { st.empties_delivered[node] > 0 } else { nonempty.iter().all(|t| st.index[node].contains_key(*t)) };
        if !own {
            return;
        }
        let has_unique = nonempty.iter().any(|t| st.index[node].get(*t).map_or(false, |v| v.len() == 1));
        if came_back {
            st.order_disabled[node] = true;
        }
        if has_unique && !st.released_digests[node].insert(digest.clone()) {
            // The same batch written again (e.g. it also came back from a peer): not a new batch.
            return;
        }
        // A write of an only-empties batch that may be a copy returned by a peer is ambiguous.
        let ambiguous = nonempty.is_empty() && came_back;
        let order_off = st.order_disabled[node];
        for tx in txs {
            if tx.is_empty() {
                st.empties_released_max[node] += 1;
                if !ambiguous {
                    st.empties_released_min[node] += 1;
                }
                if st.empties_released_min[node] > st.empties_delivered[node] {
                    viol.push(("tx-duplicated", format!("node {} released {} empty transactions but only {} were submitted", node, st.empties_released_min[node], st.empties_delivered[node])));
                }
                continue;
            }
            let seen = {
                let e = st.released[node].entry(tx.clone()).or_insert(0);
                *e += 1;
                *e
            };
            let occurrences = st.index[node].get(tx).cloned().unwrap_or_default();
            if seen as usize > occurrences.len() {
                viol.push(("tx-duplicated", format!("node {} released a {}-byte transaction {} times but it was submitted {} times (batch {})", node, tx.len(), seen, occurrences.len(), ident::short(digest))));
                continue;
            }
            if occurrences.len() == 1 {
                let (conn, pos, _) = occurrences[0];
                let next = st.next_of_conn[node].entry(conn).or_insert(0);
                // A copy returned by a peer is stored through the path for foreign batches and may
                // overtake earlier own batches (known finding of C12); order is judged on the
                // node's own release path only.
                if pos != *next && !order_off {
                    viol.push(("order", format!("node {}: transaction #{} of client connection {} was released when #{} was due (batch {})", node, pos, conn, *next, ident::short(digest))));
                }
                *next = (*next).max(pos + 1);
            } else {
                // Repeated content: advance the cursor of a connection that expects it now.
                let mut advanced = false;
                for (conn, pos, _) in &occurrences {
                    let next = st.next_of_conn[node].entry(*conn).or_insert(0);
                    if *pos == *next {
                        *next += 1;
                        advanced = true;
                        break;
                    }
                }
                if !advanced && !order_off {
                    viol.push(("order", format!("node {}: a repeated {}-byte transaction was released out of order (batch {})", node, tx.len(), ident::short(digest))));
                }
            }
        }
    });
    let mut counted = false;
    STATE.with(|s| counted = s.borrow().index.len() == o.n);
    for (r, d) in viol {
        o.violate("C11", r, Some(node), d);
    }
    if counted {
        o.probe("C11.batch-store-write-examined");
    }
}

pub fn on_commit(_o: &mut Observer, node: usize, b: &Block) {
    STATE.with(|s| {
        let mut st = s.borrow_mut();
        if st.committed_digests.len() > node {
            for x in &b.payload {
                st.committed_digests[node].insert(x.clone());
            }
        }
    });
}

pub fn on_end(o: &mut Observer, end_us: u64) {
    let profile = o.ext.profile.clone();
    let check_sealed = profile == "C11" || profile == "C13";
    let mut check_e2e = profile == "C13";
    if !check_sealed && !check_e2e {
        return;
    }
    // C13 is stated for periods without view changes: a run in which any timeout occurred is
    // outside its premise (blocks may be orphaned) and is not judged end to end.
    if check_e2e && (o.probes.get("C10.timeout-on-wire").cloned().unwrap_or(0) > 0 || o.probes.get("C19.tc-broadcast").cloned().unwrap_or(0) > 0) {
        check_e2e = false;
        o.probe("C13.premise-broken-by-view-change");
    } else if check_e2e {
        o.probe("C13.judged-end-to-end");
    }
    // C11, last sentence: every batch a node RECEIVES is stored under the hash of its exact
    // serialized bytes. Judged in the C11 scenarios only (healthy network: every frame made
    // readable is read), for frames delivered at least 2 s before the end.
    if profile == "C11" {
        let frames = o.ext.batch_frames_delivered.clone();
        let mut missing: Option<(usize, Digest, u64)> = None;
        let mut checked = 0u64;
        for (node, d, t) in frames {
            if !o.is_honest_node(node) || o.ext.crashed[node].is_some() || t + 2_000_000 > end_us {
                continue;
            }
            checked += 1;
            let ok = o.nodes[node].store.get(&d.0.to_vec()).map_or(false, |(_, vh, _)| *vh == d);
            if !ok && missing.is_none() {
                missing = Some((node, d, t));
            }
        }
        o.probe_n("C11.received-batch-frames-checked", checked);
        if let Some((node, d, t)) = missing {
            o.violate("C11", "received-batch-not-stored-under-its-hash", Some(node), format!("node {} was sent a batch frame with hash {} at {} us but its store has no entry holding exactly those bytes under that key", node, crate::ident::short(&d), t));
        }
    }
    let mut viol: Vec<(&str, &str, Option<usize>, String)> = Vec::new();
    STATE.with(|s| {
        let mut st = s.borrow_mut();
        if st.index.len() != o.n {
            return;
        }
        // Which batch contains which transaction (by content), from the wire.
        let mut tx_batch: HashMap<Vec<u8>, Digest> = HashMap::new();
        for (d, txs) in &o.ext.batch_txs {
            for t in txs {
                tx_batch.entry(t.clone()).or_insert_with(|| d.clone());
            }
        }
        for node in 0..o.n {
            if !o.is_honest_node(node) || o.ext.crashed[node].is_some() {
                continue;
            }
            refresh_index(o, &mut st, node);
            let p = match o.ext.params.get(node) {
                Some(p) => p.clone(),
                None => continue,
            };
            let quiet = p.max_batch_delay * 1_000 + o.ext.seal_slack_us + 200_000;
            let mut due_empties = 0u32;
            let mut reported = false;
            for rec in &o.ext.tx_delivered[node] {
                if rec.t_us + quiet > end_us {
                    continue;
                }
                if rec.bytes.is_empty() {
                    due_empties += 1;
                    continue;
                }
                let sealed = st.sealed_on_wire[node].get(&rec.bytes).cloned().unwrap_or(0);
                let released = st.released[node].get(&rec.bytes).cloned().unwrap_or(0);
                if (sealed == 0 || released == 0) && !reported {
                    reported = true;
                    viol.push(("C11", "tx-never-sealed", Some(node), format!("node {}: a {}-byte transaction delivered at {} us was {} by {} us", node, rec.bytes.len(), rec.t_us, if sealed == 0 { "in no batch on the wire" } else { "on the wire but its batch was never released to the store" }, end_us)));
                }
                if sealed == 0 {
                    continue;
                }
                if check_e2e && rec.t_us <= o.ext.bounds.e2e_deadline_us {
                    let d = match tx_batch.get(&rec.bytes) {
                        Some(d) => d.clone(),
                        None => continue,
                    };
                    for j in 0..o.n {
                        if !o.is_honest_node(j) || o.ext.crashed[j].is_some() {
                            continue;
                        }
                        if !st.committed_digests[j].contains(&d) {
                            viol.push(("C13", "tx-not-committed-everywhere", Some(j), format!("a transaction submitted to node {} at {} us (batch {}) is in no block committed by node {} at the end of the run ({} us)", node, rec.t_us, ident::short(&d), j, end_us)));
                        } else {
                            match o.nodes[j].store.get(&d.0.to_vec()) {
                                Some((_, vh, _)) if *vh == d => {}
                                _ => viol.push(("C13", "committed-batch-not-stored", Some(j), format!("node {} committed a block referencing batch {} but does not store its bytes", j, ident::short(&d)))),
                            }
                        }
                    }
                }
            }
            let released_empties = st.empties_released_max[node];
            if released_empties < due_empties {
                viol.push(("C11", "tx-never-sealed", Some(node), format!("node {}: {} empty transactions were delivered (long enough before the end) but only {} were released in batches", node, due_empties, released_empties)));
            }
        }
    });
    let mut seen = HashSet::new();
    for (p, r, n, d) in viol {
        if seen.insert((p, r, n)) {
            o.violate(p, r, n, d);
        }
    }
}
