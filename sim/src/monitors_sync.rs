//! C07 (catch-up) and C06 (bounded liveness) monitors, evaluated over the recorded history.
use crate::obs::Observer;
use crypto::Digest;

pub fn on_sync_reply(_o: &mut Observer, _helper: usize, _to: usize, _d: &Digest, _seq: u64) {}

/// Highest committed round of `node` at instant `t`.
fn tip_at(o: &Observer, node: usize, t: u64) -> u64 {
    o.nodes[node].commits.iter().filter(|c| c.t_us <= t).map(|c| c.round).max().unwrap_or(0)
}

pub fn on_end(o: &mut Observer, end_us: u64) {
    let profile = o.ext.profile.clone();
    let b = o.ext.bounds.clone();
    if profile == "C06" && b.liveness_window_us > 0 {
        let w = b.liveness_window_us;
        let mut viol = Vec::new();
        for i in 0..o.n {
            if !o.is_honest_node(i) || o.ext.crashed[i].is_some() {
                continue;
            }
            // Instants at which the highest committed round grew.
            let mut last = b.t_stable_us;
            let mut best = tip_at(o, i, b.t_stable_us);
            let mut worst_gap = 0u64;
            for c in o.nodes[i].commits.iter().filter(|c| c.t_us > b.t_stable_us) {
                if c.round > best {
                    best = c.round;
                    worst_gap = worst_gap.max(c.t_us - last);
                    if c.t_us - last > w {
                        viol.push((i, last, c.t_us));
                    }
                    last = c.t_us;
                }
            }
            if end_us > last && end_us - last > w {
                viol.push((i, last, end_us));
            }
            let key = format!("C06.worst-gap-ms.node{}", i);
            o.probe_n(&key, worst_gap / 1000);
            let e = o.probes.entry("C06.max-gap-over-window-permille".into()).or_insert(0);
            *e = (*e).max(worst_gap.max(end_us.saturating_sub(last)) * 1000 / w);
        }
        // Structural classification: the 2-chain rule needs three consecutive live leaders
        // (proposer of b0, proposer of b1, collector of b1's votes). With unequal stakes a set of
        // crashed authorities within the stake budget f can leave no such run in the rotation.
        let order: Vec<usize> = (0..o.n as u64).map(|r| o.members.leader_index(r)).collect();
        let live: Vec<bool> = order.iter().map(|i| o.ext.crashed[*i].is_none()).collect();
        let mut best_run = 0;
        let mut run = 0;
        for k in 0..2 * o.n {
            if live[k % o.n] {
                run += 1;
                best_run = best_run.max(run.min(o.n));
            } else {
                run = 0;
            }
        }
        let rule = if best_run < 3 { "no-progress-window.no-three-consecutive-live-leaders" } else { "no-progress-window" };
        for (i, from, to) in viol.into_iter().take(1) {
            o.violate(
                "C06",
                rule,
                Some(i),
                format!("node {}: the highest committed round did not grow between {} us and {} us (window {} us) after stabilisation at {} us", i, from, to, w, b.t_stable_us),
            );
        }
    }
    if profile == "C07" {
        // "An unanswered request is retried with other peers": every sync request the lagger
        // addressed to the deaf peer for a block it still lacks one retry period later must have
        // been repeated, for the same block, to somebody else.
        if let (Some(l), Some((p, t0, t1))) = (b.lagger, b.deaf) {
            let retry = o.ext.params.get(l).map_or(0, |x| x.sync_retry_delay * 1_000);
            // One retry delay plus twice the 5 s granularity of the retry timer plus slack.
            let period = retry + 12_000_000;
            let reqs = o.ext.sync_requests[l].clone();
            let mut checked = 0;
            let mut missing: Option<(u64, crypto::Digest)> = None;
            for (_, t, d, dst) in &reqs {
                if *dst != p || *t < t0 || *t >= t1 || t + period > end_us.min(t1) {
                    continue;
                }
                let stored_at = o.nodes[l].store_t.get(&d.0.to_vec()).cloned();
                if stored_at.map_or(false, |s| s <= t + period) {
                    continue;
                }
                checked += 1;
                let retried = reqs.iter().any(|(_, t2, d2, dst2)| d2 == d && *dst2 != p && *dst2 != l && *t2 > *t && *t2 <= t + period);
                if !retried && missing.is_none() {
                    missing = Some((*t, d.clone()));
                }
            }
            o.probe_n("C07.unanswered-requests-checked", checked);
            if let Some((t, d)) = missing {
                o.violate("C07", "unanswered-request-not-retried", Some(l), format!("node {} asked the unresponsive node {} for block {} at {} us, still lacked it {} us later, and never asked anybody else for it in between", l, p, crate::ident::short(&d), t, period));
            }
        }
        if let Some(l) = b.lagger {
            let others: Vec<usize> = (0..o.n).filter(|j| *j != l && o.is_honest_node(*j) && o.ext.crashed[*j].is_none()).collect();
            let reference = b.catchup_deadline_us.saturating_sub(b.liveness_window_us);
            let target = others.iter().map(|j| tip_at(o, *j, reference)).max().unwrap_or(0);
            let at_heal = others.iter().map(|j| tip_at(o, *j, b.heal_us)).max().unwrap_or(0);
            let mine_at_heal = tip_at(o, l, b.heal_us);
            let mine = tip_at(o, l, end_us);
            o.probe_n("C07.gap-rounds-at-heal", at_heal.saturating_sub(mine_at_heal));
            if at_heal > mine_at_heal {
                o.probe("C07.lagger-was-behind");
            }
            // With a crashed peer every backward step through one of its blocks costs a retry
            // period; the deadline pays for `slow_steps` of them per crashed peer (equal
            // stakes: a peer leads every n-th round). Larger gaps are not judged.
            // Only blocks the peer authored before it crashed count: the chain between the
            // lagger's tip at the heal and the others' tip at the crash.
            let mut steps_needed = 0u64;
            for j in 0..o.n {
                if j == l {
                    continue;
                }
                if let Some(tc) = o.ext.crashed[j] {
                    let tip_then = others.iter().map(|k| tip_at(o, *k, tc)).max().unwrap_or(0);
                    steps_needed += tip_then.saturating_sub(mine_at_heal) / o.n as u64 + 2;
                }
            }
            let beyond = steps_needed > b.slow_steps;
            if beyond && mine < target {
                o.probe("C07.catch-up-bound-beyond-run");
            }
            if mine < target && !beyond {
                // A peer that never answers makes every backward step through one of its blocks
                // cost a full retry period (5 s granularity), slower than blocks are produced.
                let rule = if matches!(b.deaf, Some((_, _, t1)) if t1 == u64::MAX) { "lagger-did-not-catch-up.peer-deaf-for-ever" } else { "lagger-did-not-catch-up" };
                o.violate(
                    "C07",
                    rule,
                    Some(l),
                    format!("node {} (isolated until {} us, behind by {} rounds then) has committed up to round {} at {} us while the others had reached round {} at {} us", l, b.heal_us, at_heal.saturating_sub(mine_at_heal), mine, end_us, target, reference),
                );
            }
        }
    }
}
