//! The simulated network: the only transport the system under test sees.
//!
//! A connection is two unidirectional byte pipes. Writes are stamped with a delivery time that
//! is a keyed hash of (seed, link, connection index, chunk index), so that removing a fault from
//! a scenario does not shift every later delay. All deliveries, connection completions, fault
//! rule activations and harness ("custom") events sit in ONE priority queue ordered by
//! (virtual time in microseconds, kind, key), processed by the single pump that `World`s drive.
//! A frame tap re-frames both directions (4-byte big-endian length prefix, as
//! tokio-util's LengthDelimitedCodec does) when bytes are written and when they become readable.
use crate::rng::{mix, unit};
use bytes::Bytes;
use serde::{Deserialize, Serialize};
use std::cmp::Reverse;
use std::collections::{BTreeMap, BinaryHeap, VecDeque};
use std::future::Future as _;
use std::io;
use std::net::{IpAddr, Ipv4Addr, SocketAddr};
use std::pin::Pin;
use std::sync::{Arc, Mutex};
use std::task::{Context, Poll, Waker};
use tokio::io::{AsyncRead, AsyncWrite, ReadBuf};
use tokio::time::{Duration, Instant};

pub type NodeId = usize;
pub const SVC_CONSENSUS: u8 = 0;
pub const SVC_MEMPOOL: u8 = 1;
pub const SVC_TX: u8 = 2;
pub const EPOCH0_MS: u128 = 1_700_000_000_000;
pub const MAX_FRAME: usize = 8 * 1024 * 1024;
pub const FOREVER: u64 = u64::MAX;

/// Address of (`target`, `svc`) as seen from `viewer`: the IP tells the simulator who dials.
pub fn addr(viewer: NodeId, target: NodeId, svc: u8) -> SocketAddr {
    SocketAddr::new(
        IpAddr::V4(Ipv4Addr::new(10, viewer as u8 + 1, target as u8 + 1, 1)),
        10_000 + svc as u16 * 1_000 + target as u16,
    )
}

fn parse_port(port: u16) -> Option<(NodeId, u8)> {
    if !(10_000..13_000).contains(&port) {
        return None;
    }
    let svc = ((port - 10_000) / 1_000) as u8;
    let node = ((port - 10_000) % 1_000) as usize;
    Some((node, svc))
}

fn parse_connect(a: &SocketAddr) -> Option<(NodeId, NodeId, u8)> {
    let (target, svc) = parse_port(a.port())?;
    match a.ip() {
        IpAddr::V4(ip) => {
            let o = ip.octets();
            if o[0] != 10 || o[1] == 0 || o[2] as usize != target + 1 {
                return None;
            }
            Some((o[1] as usize - 1, target, svc))
        }
        _ => None,
    }
}

#[derive(Clone, Debug, Serialize, Deserialize, PartialEq)]
pub enum RuleKind {
    /// Connections across the cut are reset when the rule starts and refused while it lasts.
    Block,
    /// Bytes written while the rule is active become readable only when it ends (nothing is lost).
    Stall,
    /// Extra latency (microseconds).
    Delay(u64),
}

/// A time-windowed fault on directed flows src -> dst (bit masks over node ids).
#[derive(Clone, Debug, Serialize, Deserialize)]
pub struct Rule {
    pub t0_us: u64,
    pub t1_us: u64,
    pub src: u64,
    pub dst: u64,
    pub bidir: bool,
    pub svc_mask: u8,
    pub kind: RuleKind,
    /// Only the reply direction (listener -> dialer) of matching connections (mute-ack).
    #[serde(default)]
    pub reply_only: bool,
    /// Label for fault accounting.
    pub label: String,
}

impl Rule {
    fn active(&self, t: u64) -> bool {
        self.t0_us <= t && t < self.t1_us
    }
    fn covers(&self, src: NodeId, dst: NodeId, svc: u8) -> bool {
        if self.svc_mask & (1 << svc) == 0 {
            return false;
        }
        let (s, d) = (bit(src), bit(dst));
        (self.src & s != 0 && self.dst & d != 0) || (self.bidir && self.src & d != 0 && self.dst & s != 0)
    }
}

pub fn bit(n: NodeId) -> u64 {
    if n < 64 {
        1u64 << n
    } else {
        0
    }
}

/// Break a connection at an exact frame: when frame `fidx` of the `conn_idx`-th connection of
/// the link (dialer -> listener, svc) is written (or becomes readable) in the given direction,
/// the connection is reset at that very instant; the next `refuse_after` connection attempts of
/// that link are then refused.
#[derive(Clone, Debug, Serialize, Deserialize)]
pub struct Break {
    pub dialer: NodeId,
    pub listener: NodeId,
    pub svc: u8,
    pub conn_idx: u32,
    pub to_listener: bool,
    pub fidx: u32,
    pub at_delivered: bool,
    pub refuse_after: u32,
    #[serde(default)]
    pub fired: bool,
}

#[derive(Clone, Debug, Serialize, Deserialize)]
pub struct NetCfg {
    pub base_lat_us: (u64, u64),
    pub jitter_us: u64,
    pub spike_prob: f64,
    pub spike_us: u64,
    /// Spikes only happen before this instant (stabilisation point); FOREVER = always.
    pub spike_until_us: u64,
    pub connect_lat_us: (u64, u64),
    pub short_write_prob: f64,
    pub pending_write_prob: f64,
    pub split_read_prob: f64,
    /// A read that could return data returns Pending once (the task is re-queued behind others).
    #[serde(default)]
    pub pending_read_prob: f64,
    pub rules: Vec<Rule>,
    /// (instant, delta in ms) jumps of the simulated wall clock.
    pub clock_jumps: Vec<(u64, i64)>,
    #[serde(default)]
    pub breaks: Vec<Break>,
    /// Connection attempts refused at the start, per link (dialer, listener, svc, count).
    #[serde(default)]
    pub refuse_first: Vec<(NodeId, NodeId, u8, u32)>,
}

impl Default for NetCfg {
    fn default() -> Self {
        NetCfg {
            base_lat_us: (500, 5_000),
            jitter_us: 1_000,
            spike_prob: 0.0,
            spike_us: 0,
            spike_until_us: FOREVER,
            connect_lat_us: (200, 2_000),
            short_write_prob: 0.0,
            pending_write_prob: 0.0,
            split_read_prob: 0.0,
            pending_read_prob: 0.0,
            rules: Vec::new(),
            clock_jumps: Vec::new(),
            breaks: Vec::new(),
            refuse_first: Vec::new(),
        }
    }
}

#[derive(Clone, Copy, Debug, PartialEq, Eq)]
pub enum Phase {
    Written,
    Delivered,
}

#[derive(Clone, Debug)]
pub enum TapKind {
    Frame { phase: Phase, fidx: u32, data: Bytes },
    /// The byte stream stopped being frameable (length prefix above the codec limit).
    Unframeable { phase: Phase },
    Open,
    Refused,
    Reset { injected: bool },
    Closed,
}

#[derive(Clone, Debug)]
pub struct TapEvent {
    pub seq: u64,
    pub t_us: u64,
    pub conn: usize,
    /// Index of this connection among all connections dialer -> (listener, svc).
    pub conn_idx: u32,
    pub dialer: NodeId,
    pub listener: NodeId,
    pub svc: u8,
    /// Direction of the bytes: dialer -> listener (requests) or back (replies).
    pub to_listener: bool,
    pub kind: TapKind,
}

impl TapEvent {
    pub fn src(&self) -> NodeId {
        if self.to_listener {
            self.dialer
        } else {
            self.listener
        }
    }
    pub fn dst(&self) -> NodeId {
        if self.to_listener {
            self.listener
        } else {
            self.dialer
        }
    }
}

#[derive(Default)]
struct FrameParser {
    buf: Vec<u8>,
    fidx: u32,
    dead: bool,
}

enum Parsed {
    Frame(u32, Bytes),
    Dead,
}

impl FrameParser {
    fn feed(&mut self, data: &[u8], out: &mut Vec<Parsed>) {
        if self.dead {
            return;
        }
        self.buf.extend_from_slice(data);
        loop {
            if self.buf.len() < 4 {
                return;
            }
            let len = u32::from_be_bytes([self.buf[0], self.buf[1], self.buf[2], self.buf[3]]) as usize;
            if len > MAX_FRAME {
                self.dead = true;
                self.buf.clear();
                out.push(Parsed::Dead);
                return;
            }
            if self.buf.len() < 4 + len {
                return;
            }
            let frame = Bytes::copy_from_slice(&self.buf[4..4 + len]);
            self.buf.drain(..4 + len);
            out.push(Parsed::Frame(self.fidx, frame));
            self.fidx += 1;
        }
    }
}

struct Pipe {
    in_flight: VecDeque<(u64, Bytes)>,
    readable: VecDeque<u8>,
    reader_waker: Option<Waker>,
    last_deliver_at: u64,
    chunk_idx: u64,
    write_calls: u64,
    read_calls: u64,
    fin: bool,
    reader_gone: bool,
    /// Bytes delivered before a break are still readable; the error comes after them.
    reset_after_drain: bool,
    tap_w: FrameParser,
    tap_r: FrameParser,
}

impl Pipe {
    fn new() -> Self {
        Pipe {
            in_flight: VecDeque::new(),
            readable: VecDeque::new(),
            reader_waker: None,
            last_deliver_at: 0,
            chunk_idx: 0,
            write_calls: 0,
            read_calls: 0,
            fin: false,
            reader_gone: false,
            reset_after_drain: false,
            tap_w: FrameParser::default(),
            tap_r: FrameParser::default(),
        }
    }
}

struct Conn {
    dialer: NodeId,
    listener: NodeId,
    svc: u8,
    conn_idx: u32,
    key: u64,
    /// pipes[0]: dialer -> listener; pipes[1]: listener -> dialer.
    pipes: [Pipe; 2],
    reset: bool,
    dialer_harness: bool,
    listener_harness: bool,
    /// Real-side stream objects still alive (for `Closed` accounting).
    open_ends: u8,
}

struct Listener {
    harness: bool,
    queue: VecDeque<(usize, SocketAddr)>,
    waker: Option<Waker>,
}

struct PendingConnect {
    dialer: NodeId,
    target: NodeId,
    svc: u8,
    waker: Option<Waker>,
    result: Option<io::Result<usize>>,
    abandoned: bool,
}

#[derive(Clone, Debug, PartialEq, Eq, PartialOrd, Ord)]
enum Ev {
    RuleStart(usize),
    ConnectDone(usize),
    Deliver(usize, usize),
    Custom(u64),
}

#[derive(PartialEq, Eq, PartialOrd, Ord)]
struct HeapItem {
    t_us: u64,
    ev: Ev,
    ins: u64,
}

pub struct NetInner {
    pub seed: u64,
    pub cfg: NetCfg,
    start: Instant,
    heap: BinaryHeap<Reverse<HeapItem>>,
    ins: u64,
    conns: Vec<Conn>,
    listeners: BTreeMap<(NodeId, u8), Listener>,
    pending: Vec<PendingConnect>,
    link_conn_count: BTreeMap<(NodeId, NodeId, u8), u32>,
    tap: Vec<TapEvent>,
    seq: u64,
    seed_counter: u64,
    pump_waker: Option<Waker>,
    pub fault_counts: BTreeMap<String, u64>,
    /// Rolling hash of every tap event: the determinism witness of a run.
    pub log_hash: u64,
    pub events_processed: u64,
    refuse_budget: BTreeMap<(NodeId, NodeId, u8), u32>,
    pending_break: Option<usize>,
}

#[derive(Clone)]
pub struct Net {
    pub inner: Arc<Mutex<NetInner>>,
}

fn now_us_from(start: Instant) -> u64 {
    Instant::now().saturating_duration_since(start).as_micros() as u64
}

impl NetInner {
    fn now_us(&self) -> u64 {
        now_us_from(self.start)
    }

    fn count(&mut self, label: &str) {
        *self.fault_counts.entry(label.to_string()).or_insert(0) += 1;
    }

    fn next_seq(&mut self) -> u64 {
        self.seq += 1;
        self.seq
    }

    fn push_ev(&mut self, t_us: u64, ev: Ev) {
        self.ins += 1;
        let ins = self.ins;
        let earlier = self.heap.peek().map_or(true, |Reverse(top)| t_us < top.t_us);
        self.heap.push(Reverse(HeapItem { t_us, ev, ins }));
        if earlier {
            if let Some(w) = self.pump_waker.take() {
                w.wake();
            }
        }
    }

    fn emit(&mut self, conn: usize, to_listener: bool, kind: TapKind) {
        let seq = self.next_seq();
        let t_us = self.now_us();
        let c = &self.conns[conn];
        let ev = TapEvent {
            seq,
            t_us,
            conn,
            conn_idx: c.conn_idx,
            dialer: c.dialer,
            listener: c.listener,
            svc: c.svc,
            to_listener,
            kind,
        };
        let (tag, payload_hash) = match &ev.kind {
            TapKind::Frame { phase, fidx, data } => {
                let mut h = 0u64;
                for chunk in data.chunks(8) {
                    let mut b = [0u8; 8];
                    b[..chunk.len()].copy_from_slice(chunk);
                    h = crate::rng::splitmix(h ^ u64::from_le_bytes(b));
                }
                (1 + (*phase == Phase::Delivered) as u64, mix(&[*fidx as u64, data.len() as u64, h]))
            }
            TapKind::Unframeable { .. } => (3, 0),
            TapKind::Open => (4, 0),
            TapKind::Refused => (5, 0),
            TapKind::Reset { injected } => (6, *injected as u64),
            TapKind::Closed => (7, 0),
        };
        self.log_hash = mix(&[
            self.log_hash,
            ev.seq,
            ev.t_us,
            ev.dialer as u64,
            ev.listener as u64,
            ev.svc as u64,
            ev.conn_idx as u64,
            ev.to_listener as u64,
            tag,
            payload_hash,
        ]);
        let breakpoint = if let TapKind::Frame { phase, fidx, .. } = &ev.kind {
            let delivered = *phase == Phase::Delivered;
            self.cfg.breaks.iter().position(|b| {
                !b.fired && b.dialer == ev.dialer && b.listener == ev.listener && b.svc == ev.svc && b.conn_idx == ev.conn_idx && b.to_listener == ev.to_listener && b.fidx == *fidx && b.at_delivered == delivered
            })
        } else {
            None
        };
        self.tap.push(ev);
        if let Some(k) = breakpoint {
            self.cfg.breaks[k].fired = true;
            let b = self.cfg.breaks[k].clone();
            if b.refuse_after > 0 {
                *self.refuse_budget.entry((b.dialer, b.listener, b.svc)).or_insert(0) += b.refuse_after;
            }
            self.count("break-at-frame");
            self.pending_break = Some(conn);
        }
    }

    fn blocked(&self, a: NodeId, b: NodeId, svc: u8, t: u64) -> Option<usize> {
        self.cfg.rules.iter().position(|r| {
            r.kind == RuleKind::Block && r.active(t) && (r.covers(a, b, svc) || r.covers(b, a, svc))
        })
    }

    /// Delivery instant of a chunk written now on `conn` in direction `dir`.
    fn stamp(&mut self, conn: usize, dir: usize) -> u64 {
        let now = self.now_us();
        let c = &self.conns[conn];
        let (src, dst) = if dir == 0 { (c.dialer, c.listener) } else { (c.listener, c.dialer) };
        let svc = c.svc;
        let k = c.pipes[dir].chunk_idx;
        let key = c.key;
        let last = c.pipes[dir].last_deliver_at;
        let (lo, hi) = self.cfg.base_lat_us;
        let base = lo + (unit(&[self.seed, 11, src as u64, dst as u64, svc as u64]) * (hi.saturating_sub(lo)) as f64) as u64;
        let mut lat = base + (unit(&[self.seed, 12, key, dir as u64, k]) * self.cfg.jitter_us as f64) as u64;
        let mut spiked = false;
        if self.cfg.spike_prob > 0.0 && now < self.cfg.spike_until_us && unit(&[self.seed, 13, key, dir as u64, k]) < self.cfg.spike_prob {
            lat += (unit(&[self.seed, 14, key, dir as u64, k]) * self.cfg.spike_us as f64) as u64;
            spiked = true;
        }
        let mut labels: Vec<String> = Vec::new();
        for r in &self.cfg.rules {
            if let RuleKind::Delay(extra) = r.kind {
                if r.active(now) && r.covers(src, dst, svc) && (!r.reply_only || dir == 1) {
                    lat += extra;
                    labels.push(r.label.clone());
                }
            }
        }
        let mut at = (now + lat.max(50)).max(last);
        // Stall rules hold the bytes until the rule ends; iterate because windows may chain.
        loop {
            let mut moved = false;
            for r in &self.cfg.rules {
                if r.kind == RuleKind::Stall && r.t1_us != FOREVER && r.active(at) && r.covers(src, dst, svc) && (!r.reply_only || dir == 1) {
                    at = r.t1_us;
                    moved = true;
                    labels.push(r.label.clone());
                }
            }
            if !moved {
                break;
            }
        }
        // A stall without end holds the bytes for ever.
        for r in &self.cfg.rules {
            if r.kind == RuleKind::Stall && r.t1_us == FOREVER && r.active(at) && r.covers(src, dst, svc) && (!r.reply_only || dir == 1) {
                at = FOREVER;
                labels.push(r.label.clone());
            }
        }
        if spiked {
            self.count("spike");
        }
        for l in labels {
            self.count(&l);
        }
        let p = &mut self.conns[conn].pipes[dir];
        p.chunk_idx += 1;
        if at != FOREVER {
            p.last_deliver_at = at;
        }
        at
    }

    fn write(&mut self, conn: usize, dir: usize, data: &[u8]) -> io::Result<usize> {
        if self.conns[conn].reset || self.conns[conn].pipes[dir].reader_gone {
            return Err(io::Error::new(io::ErrorKind::BrokenPipe, "sim: connection reset"));
        }
        let now = self.now_us();
        let (d, l, svc) = {
            let c = &self.conns[conn];
            (c.dialer, c.listener, c.svc)
        };
        if self.blocked(d, l, svc, now).is_some() {
            self.do_reset(conn, true);
            return Err(io::Error::new(io::ErrorKind::BrokenPipe, "sim: link cut"));
        }
        let at = self.stamp(conn, dir);
        let mut parsed = Vec::new();
        self.conns[conn].pipes[dir].tap_w.feed(data, &mut parsed);
        for p in parsed {
            match p {
                Parsed::Frame(fidx, frame) => self.emit(conn, dir == 0, TapKind::Frame { phase: Phase::Written, fidx, data: frame }),
                Parsed::Dead => self.emit(conn, dir == 0, TapKind::Unframeable { phase: Phase::Written }),
            }
        }
        if at != FOREVER {
            self.conns[conn].pipes[dir].in_flight.push_back((at, Bytes::copy_from_slice(data)));
            self.push_ev(at, Ev::Deliver(conn, dir));
        }
        if let Some(c) = self.pending_break.take() {
            // The frame just written is lost with the connection.
            self.do_reset(c, true);
        }
        Ok(data.len())
    }

    fn deliver(&mut self, conn: usize, dir: usize) {
        let now = self.now_us();
        if self.conns[conn].reset {
            return;
        }
        let chunk = match self.conns[conn].pipes[dir].in_flight.front() {
            Some((at, _)) if *at <= now => self.conns[conn].pipes[dir].in_flight.pop_front().unwrap().1,
            _ => {
                // Nothing due: this is the wake-up for an in-order FIN (or a stale event).
                let p = &mut self.conns[conn].pipes[dir];
                if p.fin && p.in_flight.is_empty() {
                    if let Some(w) = p.reader_waker.take() {
                        w.wake();
                    }
                }
                return;
            }
        };
        let harness_dst = if dir == 0 { self.conns[conn].listener_harness } else { self.conns[conn].dialer_harness };
        let mut parsed = Vec::new();
        {
            let p = &mut self.conns[conn].pipes[dir];
            p.tap_r.feed(&chunk, &mut parsed);
            if !harness_dst {
                p.readable.extend(chunk.iter());
            }
        }
        for p in parsed {
            match p {
                Parsed::Frame(fidx, frame) => self.emit(conn, dir == 0, TapKind::Frame { phase: Phase::Delivered, fidx, data: frame }),
                Parsed::Dead => self.emit(conn, dir == 0, TapKind::Unframeable { phase: Phase::Delivered }),
            }
        }
        if let Some(w) = self.conns[conn].pipes[dir].reader_waker.take() {
            w.wake();
        }
        if let Some(c) = self.pending_break.take() {
            // Break right after the bytes became readable: keep them readable (the peer did get
            // the frame) but fail everything else on the connection.
            let keep: Vec<u8> = self.conns[c].pipes[dir].readable.iter().cloned().collect();
            self.do_reset(c, true);
            self.conns[c].pipes[dir].readable.extend(keep);
            self.conns[c].pipes[dir].reset_after_drain = true;
        }
    }

    fn do_reset(&mut self, conn: usize, injected: bool) {
        if self.conns[conn].reset {
            return;
        }
        self.conns[conn].reset = true;
        for dir in 0..2 {
            let p = &mut self.conns[conn].pipes[dir];
            p.in_flight.clear();
            p.readable.clear();
            if let Some(w) = p.reader_waker.take() {
                w.wake();
            }
        }
        self.emit(conn, true, TapKind::Reset { injected });
        if injected {
            self.count("reset");
        }
    }

    fn new_conn(&mut self, dialer: NodeId, listener: NodeId, svc: u8, dialer_harness: bool, listener_harness: bool) -> usize {
        let idx = {
            let e = self.link_conn_count.entry((dialer, listener, svc)).or_insert(0);
            let v = *e;
            *e += 1;
            v
        };
        let key = mix(&[self.seed, 21, dialer as u64, listener as u64, svc as u64, idx as u64]);
        self.conns.push(Conn {
            dialer,
            listener,
            svc,
            conn_idx: idx,
            key,
            pipes: [Pipe::new(), Pipe::new()],
            reset: false,
            dialer_harness,
            listener_harness,
            open_ends: (!dialer_harness) as u8 + (!listener_harness) as u8,
        });
        let id = self.conns.len() - 1;
        self.emit(id, true, TapKind::Open);
        id
    }

    /// Try to establish dialer -> (target, svc) now. Real listeners get the stream queued.
    fn establish(&mut self, dialer: NodeId, target: NodeId, svc: u8, dialer_harness: bool) -> io::Result<usize> {
        let now = self.now_us();
        let refused = || io::Error::new(io::ErrorKind::ConnectionRefused, "sim: connection refused");
        if self.blocked(dialer, target, svc, now).is_some() {
            self.count("refuse");
            return Err(refused());
        }
        if let Some(k) = self.refuse_budget.get_mut(&(dialer, target, svc)) {
            if *k > 0 {
                *k -= 1;
                self.count("refuse-scripted");
                return Err(refused());
            }
        }
        let harness = match self.listeners.get(&(target, svc)) {
            Some(l) => l.harness,
            None => {
                self.count("refuse-no-listener");
                return Err(refused());
            }
        };
        let id = self.new_conn(dialer, target, svc, dialer_harness, harness);
        if !harness {
            let peer = SocketAddr::new(
                IpAddr::V4(Ipv4Addr::new(10, target as u8 + 1, (dialer % 250) as u8 + 1, 2)),
                20_000 + (id % 40_000) as u16,
            );
            let l = self.listeners.get_mut(&(target, svc)).unwrap();
            l.queue.push_back((id, peer));
            if let Some(w) = l.waker.take() {
                w.wake();
            }
        }
        Ok(id)
    }

    fn close_end(&mut self, conn: usize, side_dialer: bool) {
        // The writer half of this end is gone: FIN on its outgoing pipe (in order, after the
        // in-flight bytes); the reader half is gone too: bytes towards it are discarded.
        let (out_dir, in_dir) = if side_dialer { (0, 1) } else { (1, 0) };
        if self.conns[conn].reset {
            return;
        }
        self.conns[conn].pipes[out_dir].fin = true;
        // Wake the peer reader when the FIN "arrives": right after the last in-flight chunk.
        let at = self.conns[conn].pipes[out_dir].last_deliver_at.max(self.now_us() + 50);
        self.push_ev(at, Ev::Deliver(conn, out_dir));
        self.conns[conn].pipes[in_dir].readable.clear();
        self.conns[conn].pipes[in_dir].reader_gone = true;
        self.conns[conn].open_ends = self.conns[conn].open_ends.saturating_sub(1);
        self.emit(conn, side_dialer, TapKind::Closed);
    }
}

impl Net {
    pub fn new(seed: u64, cfg: NetCfg) -> Self {
        let mut inner = NetInner {
            seed,
            cfg,
            start: Instant::now(),
            heap: BinaryHeap::new(),
            ins: 0,
            conns: Vec::new(),
            listeners: BTreeMap::new(),
            pending: Vec::new(),
            link_conn_count: BTreeMap::new(),
            tap: Vec::new(),
            seq: 0,
            seed_counter: 0,
            pump_waker: None,
            fault_counts: BTreeMap::new(),
            log_hash: 0,
            events_processed: 0,
            refuse_budget: BTreeMap::new(),
            pending_break: None,
        };
        for (d, l, s, k) in inner.cfg.refuse_first.clone() {
            inner.refuse_budget.insert((d, l, s), k);
        }
        for i in 0..inner.cfg.rules.len() {
            if inner.cfg.rules[i].kind == RuleKind::Block {
                let t0 = inner.cfg.rules[i].t0_us;
                inner.push_ev(t0, Ev::RuleStart(i));
            }
        }
        Net { inner: Arc::new(Mutex::new(inner)) }
    }

    pub fn now_us(&self) -> u64 {
        self.inner.lock().unwrap().now_us()
    }

    pub fn next_seq(&self) -> u64 {
        self.inner.lock().unwrap().next_seq()
    }

    pub fn start(&self) -> Instant {
        self.inner.lock().unwrap().start
    }

    pub fn schedule_custom(&self, t_us: u64, id: u64) {
        self.inner.lock().unwrap().push_ev(t_us, Ev::Custom(id));
    }

    pub fn drain_tap(&self) -> Vec<TapEvent> {
        std::mem::take(&mut self.inner.lock().unwrap().tap)
    }

    pub fn count_fault(&self, label: &str) {
        self.inner.lock().unwrap().count(label);
    }

    /// Fold an observation made outside the network (commit, store write) into the run hash.
    pub fn fold_hash(&self, parts: &[u64]) {
        let mut g = self.inner.lock().unwrap();
        let mut v = vec![g.log_hash];
        v.extend_from_slice(parts);
        g.log_hash = mix(&v);
    }

    /// Sleep (virtual time) until the earliest queued event or `limit_us`, whichever is first,
    /// waking early if an earlier event is queued meanwhile; then process every due network
    /// event in queue order and return the custom events that became due (in order).
    pub async fn pump(&self, limit_us: u64) -> Vec<u64> {
        loop {
            let (target, start) = {
                let g = self.inner.lock().unwrap();
                let t = g.heap.peek().map_or(limit_us, |Reverse(top)| top.t_us.min(limit_us));
                (t, g.start)
            };
            let now = now_us_from(start);
            if target > now {
                let deadline = start + Duration::from_micros(target);
                let this = self.clone();
                // Wait for the deadline or for an earlier event to be queued.
                let mut sleep = Box::pin(tokio::time::sleep_until(deadline));
                let woke_early = std::future::poll_fn(|cx| {
                    if sleep.as_mut().poll(cx).is_ready() {
                        return Poll::Ready(false);
                    }
                    let mut g = this.inner.lock().unwrap();
                    let earlier = g.heap.peek().map_or(false, |Reverse(top)| top.t_us < target);
                    if earlier {
                        return Poll::Ready(true);
                    }
                    g.pump_waker = Some(cx.waker().clone());
                    Poll::Pending
                })
                .await;
                if woke_early {
                    continue;
                }
            }
            let mut customs = Vec::new();
            let mut g = self.inner.lock().unwrap();
            let now = g.now_us();
            loop {
                let due = g.heap.peek().map_or(false, |Reverse(top)| top.t_us <= now);
                if !due {
                    break;
                }
                let Reverse(item) = g.heap.pop().unwrap();
                g.events_processed += 1;
                match item.ev {
                    Ev::Deliver(conn, dir) => g.deliver(conn, dir),
                    Ev::ConnectDone(id) => {
                        if g.pending[id].abandoned {
                            continue;
                        }
                        let (d, t, s) = (g.pending[id].dialer, g.pending[id].target, g.pending[id].svc);
                        let r = g.establish(d, t, s, false);
                        if r.is_err() {
                            // No connection object exists for a refused connect; nothing to tap.
                        }
                        g.pending[id].result = Some(r);
                        if let Some(w) = g.pending[id].waker.take() {
                            w.wake();
                        }
                    }
                    Ev::RuleStart(i) => {
                        let r = g.cfg.rules[i].clone();
                        let label = r.label.clone();
                        g.count(&label);
                        let victims: Vec<usize> = g
                            .conns
                            .iter()
                            .enumerate()
                            .filter(|(_, c)| !c.reset && (r.covers(c.dialer, c.listener, c.svc) || r.covers(c.listener, c.dialer, c.svc)))
                            .map(|(i, _)| i)
                            .collect();
                        for v in victims {
                            g.do_reset(v, true);
                        }
                    }
                    Ev::Custom(id) => customs.push(id),
                }
            }
            drop(g);
            // Return after every batch of due events so that the caller can observe
            // (drain tap, commit channels) between batches.
            return customs;
        }
    }

    // ---- harness-side API -------------------------------------------------------------

    pub fn h_listen(&self, node: NodeId, svc: u8) {
        let mut g = self.inner.lock().unwrap();
        g.listeners.insert((node, svc), Listener { harness: true, queue: VecDeque::new(), waker: None });
    }

    pub fn h_unlisten(&self, node: NodeId, svc: u8) {
        self.inner.lock().unwrap().listeners.remove(&(node, svc));
    }

    pub fn h_connect(&self, from: NodeId, to: NodeId, svc: u8) -> io::Result<usize> {
        self.inner.lock().unwrap().establish(from, to, svc, true)
    }

    /// Write one length-prefixed frame from the harness end of `conn`.
    pub fn h_send_frame(&self, conn: usize, from_dialer: bool, frame: &[u8]) -> io::Result<()> {
        let mut buf = Vec::with_capacity(frame.len() + 4);
        buf.extend_from_slice(&(frame.len() as u32).to_be_bytes());
        buf.extend_from_slice(frame);
        self.h_send_raw(conn, from_dialer, &buf)
    }

    pub fn h_send_raw(&self, conn: usize, from_dialer: bool, raw: &[u8]) -> io::Result<()> {
        let mut g = self.inner.lock().unwrap();
        g.write(conn, if from_dialer { 0 } else { 1 }, raw).map(|_| ())
    }

    pub fn h_close(&self, conn: usize, side_dialer: bool) {
        self.inner.lock().unwrap().close_end(conn, side_dialer);
    }

    pub fn conn_alive(&self, conn: usize) -> bool {
        let g = self.inner.lock().unwrap();
        !g.conns[conn].reset && !g.conns[conn].pipes[0].fin && !g.conns[conn].pipes[1].fin
    }

    /// Reset the `pick`-th live connection matching the filter (injected fault).
    pub fn reset_matching(&self, src: u64, dst: u64, svc_mask: u8, pick: u64) -> bool {
        let mut g = self.inner.lock().unwrap();
        let live: Vec<usize> = g
            .conns
            .iter()
            .enumerate()
            .filter(|(_, c)| {
                !c.reset
                    && svc_mask & (1 << c.svc) != 0
                    && ((bit(c.dialer) & src != 0 && bit(c.listener) & dst != 0) || (bit(c.dialer) & dst != 0 && bit(c.listener) & src != 0))
            })
            .map(|(i, _)| i)
            .collect();
        if live.is_empty() {
            return false;
        }
        let v = live[(pick % live.len() as u64) as usize];
        g.do_reset(v, true);
        true
    }

    pub fn stats(&self) -> (u64, u64, BTreeMap<String, u64>, usize) {
        let g = self.inner.lock().unwrap();
        (g.log_hash, g.events_processed, g.fault_counts.clone(), g.conns.len())
    }
}

// ---- the seam implementation ------------------------------------------------------------

pub struct SimStream {
    net: Net,
    conn: usize,
    side_dialer: bool,
}

impl Drop for SimStream {
    fn drop(&mut self) {
        if let Ok(mut g) = self.net.inner.lock() {
            g.close_end(self.conn, self.side_dialer);
        }
    }
}

impl AsyncRead for SimStream {
    fn poll_read(self: Pin<&mut Self>, cx: &mut Context<'_>, buf: &mut ReadBuf<'_>) -> Poll<io::Result<()>> {
        let mut g = self.net.inner.lock().unwrap();
        let dir = if self.side_dialer { 1 } else { 0 };
        if g.conns[self.conn].reset && !(g.conns[self.conn].pipes[dir].reset_after_drain && !g.conns[self.conn].pipes[dir].readable.is_empty()) {
            return Poll::Ready(Err(io::Error::new(io::ErrorKind::ConnectionReset, "sim: connection reset")));
        }
        let seed = g.seed;
        let split = g.cfg.split_read_prob;
        let pend = g.cfg.pending_read_prob;
        let key = g.conns[self.conn].key;
        if pend > 0.0 && !g.conns[self.conn].pipes[dir].readable.is_empty() {
            g.conns[self.conn].pipes[dir].read_calls += 1;
            let call = g.conns[self.conn].pipes[dir].read_calls;
            if unit(&[seed, 36, key, dir as u64, call]) < pend {
                g.count("read-pending");
                cx.waker().wake_by_ref();
                return Poll::Pending;
            }
        }
        let p = &mut g.conns[self.conn].pipes[dir];
        if !p.readable.is_empty() {
            let mut n = p.readable.len().min(buf.remaining());
            p.read_calls += 1;
            let mut did_split = false;
            if split > 0.0 && n > 1 && unit(&[seed, 31, key, dir as u64, p.read_calls]) < split {
                n = 1 + (mix(&[seed, 32, key, dir as u64, p.read_calls]) % (n as u64 - 1)) as usize;
                did_split = true;
            }
            let bytes: Vec<u8> = p.readable.drain(..n).collect();
            buf.put_slice(&bytes);
            if did_split {
                g.count("split-read");
            }
            return Poll::Ready(Ok(()));
        }
        if p.fin && p.in_flight.is_empty() {
            return Poll::Ready(Ok(()));
        }
        p.reader_waker = Some(cx.waker().clone());
        Poll::Pending
    }
}

impl AsyncWrite for SimStream {
    fn poll_write(self: Pin<&mut Self>, cx: &mut Context<'_>, data: &[u8]) -> Poll<io::Result<usize>> {
        let mut g = self.net.inner.lock().unwrap();
        let dir = if self.side_dialer { 0 } else { 1 };
        if data.is_empty() {
            return Poll::Ready(Ok(0));
        }
        let seed = g.seed;
        let key = g.conns[self.conn].key;
        let (pw, sw) = (g.cfg.pending_write_prob, g.cfg.short_write_prob);
        g.conns[self.conn].pipes[dir].write_calls += 1;
        let call = g.conns[self.conn].pipes[dir].write_calls;
        if pw > 0.0 && unit(&[seed, 33, key, dir as u64, call]) < pw {
            g.count("write-pending");
            cx.waker().wake_by_ref();
            return Poll::Pending;
        }
        let mut n = data.len();
        if sw > 0.0 && n > 1 && unit(&[seed, 34, key, dir as u64, call]) < sw {
            n = 1 + (mix(&[seed, 35, key, dir as u64, call]) % (n as u64 - 1)) as usize;
            g.count("short-write");
        }
        Poll::Ready(g.write(self.conn, dir, &data[..n]))
    }

    fn poll_flush(self: Pin<&mut Self>, _cx: &mut Context<'_>) -> Poll<io::Result<()>> {
        Poll::Ready(Ok(()))
    }

    fn poll_shutdown(self: Pin<&mut Self>, _cx: &mut Context<'_>) -> Poll<io::Result<()>> {
        Poll::Ready(Ok(()))
    }
}

struct SimListener {
    net: Net,
    node: NodeId,
    svc: u8,
}

impl network::simnet::ListenerImpl for SimListener {
    fn poll_accept(&self, cx: &mut Context<'_>) -> Poll<io::Result<(Box<dyn network::simnet::StreamImpl>, SocketAddr)>> {
        let mut g = self.net.inner.lock().unwrap();
        let l = match g.listeners.get_mut(&(self.node, self.svc)) {
            Some(l) => l,
            None => return Poll::Ready(Err(io::Error::new(io::ErrorKind::Other, "sim: listener gone"))),
        };
        match l.queue.pop_front() {
            Some((conn, peer)) => {
                drop(g);
                Poll::Ready(Ok((Box::new(SimStream { net: self.net.clone(), conn, side_dialer: false }), peer)))
            }
            None => {
                l.waker = Some(cx.waker().clone());
                Poll::Pending
            }
        }
    }
}

struct ConnectFut {
    net: Net,
    id: usize,
    done: bool,
}

impl std::future::Future for ConnectFut {
    type Output = io::Result<Box<dyn network::simnet::StreamImpl>>;
    fn poll(mut self: Pin<&mut Self>, cx: &mut Context<'_>) -> Poll<Self::Output> {
        let mut g = self.net.inner.lock().unwrap();
        match g.pending[self.id].result.take() {
            Some(r) => {
                drop(g);
                self.done = true;
                Poll::Ready(r.map(|conn| {
                    Box::new(SimStream { net: self.net.clone(), conn, side_dialer: true }) as Box<dyn network::simnet::StreamImpl>
                }))
            }
            None => {
                g.pending[self.id].waker = Some(cx.waker().clone());
                Poll::Pending
            }
        }
    }
}

impl Drop for ConnectFut {
    fn drop(&mut self) {
        if !self.done {
            if let Ok(mut g) = self.net.inner.lock() {
                g.pending[self.id].abandoned = true;
                if let Some(Ok(conn)) = g.pending[self.id].result.take() {
                    g.close_end(conn, true);
                }
            }
        }
    }
}

impl network::simnet::Backend for Net {
    fn bind(&self, address: SocketAddr) -> io::Result<Box<dyn network::simnet::ListenerImpl>> {
        let (node, svc) = parse_port(address.port()).ok_or_else(|| io::Error::new(io::ErrorKind::AddrNotAvailable, "sim: unknown port"))?;
        let mut g = self.inner.lock().unwrap();
        if g.listeners.contains_key(&(node, svc)) {
            return Err(io::Error::new(io::ErrorKind::AddrInUse, "sim: address in use"));
        }
        g.listeners.insert((node, svc), Listener { harness: false, queue: VecDeque::new(), waker: None });
        Ok(Box::new(SimListener { net: self.clone(), node, svc }))
    }

    fn connect(&self, address: SocketAddr) -> network::simnet::ConnectFuture {
        let mut g = self.inner.lock().unwrap();
        let id = g.pending.len();
        match parse_connect(&address) {
            Some((dialer, target, svc)) => {
                let (lo, hi) = g.cfg.connect_lat_us;
                let lat = lo + (unit(&[g.seed, 41, dialer as u64, target as u64, svc as u64, id as u64]) * hi.saturating_sub(lo) as f64) as u64;
                g.pending.push(PendingConnect { dialer, target, svc, waker: None, result: None, abandoned: false });
                let at = g.now_us() + lat.max(50);
                g.push_ev(at, Ev::ConnectDone(id));
            }
            None => {
                g.pending.push(PendingConnect {
                    dialer: 0,
                    target: 0,
                    svc: 0,
                    waker: None,
                    result: Some(Err(io::Error::new(io::ErrorKind::AddrNotAvailable, "sim: unroutable address"))),
                    abandoned: false,
                });
            }
        }
        drop(g);
        Box::pin(ConnectFut { net: self.clone(), id, done: false })
    }

    fn now_millis(&self) -> u128 {
        let g = self.inner.lock().unwrap();
        let now = g.now_us();
        let mut off: i64 = 0;
        for (t, d) in &g.cfg.clock_jumps {
            if *t <= now {
                off += *d;
            }
        }
        (EPOCH0_MS as i128 + (now / 1_000) as i128 + off as i128).max(0) as u128
    }

    fn next_seed(&self) -> u64 {
        let mut g = self.inner.lock().unwrap();
        g.seed_counter += 1;
        mix(&[g.seed, 51, g.seed_counter])
    }
}

/// Remove a real listener (the node "restarts": its port vanishes and may come back).
impl Net {
    /// Add a fault rule while the run is in progress (used by content-triggered faults such as
    /// "slow down the leader of round r"; the trigger is a deterministic function of the tap).
    pub fn add_rule(&self, rule: Rule) {
        let mut g = self.inner.lock().unwrap();
        let t0 = rule.t0_us.max(g.now_us());
        let is_block = rule.kind == RuleKind::Block;
        g.cfg.rules.push(rule);
        let idx = g.cfg.rules.len() - 1;
        if is_block {
            g.push_ev(t0, Ev::RuleStart(idx));
        } else {
            let label = g.cfg.rules[idx].label.clone();
            g.count(&label);
        }
    }

    pub fn drop_listener(&self, node: NodeId, svc: u8) {
        let mut g = self.inner.lock().unwrap();
        if let Some(mut l) = g.listeners.remove(&(node, svc)) {
            if let Some(w) = l.waker.take() {
                w.wake();
            }
        }
    }
}
