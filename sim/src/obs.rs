//! Observation points and the monitors that judge them. Nothing here is inside the logic under
//! test: inputs are the frame tap, the commit channels, the store-write tap and the panic hook.
use crate::ident::{self, Members, Round};
use crate::net::{NodeId, Phase, TapEvent, TapKind, SVC_CONSENSUS, SVC_MEMPOOL, SVC_TX};
use consensus::{Block, ConsensusMessage};
use crypto::{Digest, PublicKey};
use mempool::MempoolMessage;
use std::collections::{BTreeMap, HashMap, HashSet};

#[derive(Clone, Debug, serde::Serialize, serde::Deserialize)]
pub struct Violation {
    pub prop: String,
    pub rule: String,
    pub detail: String,
    pub seq: u64,
    pub t_us: u64,
    pub node: Option<usize>,
}

pub struct BlockRec {
    pub block: Block,
    pub digest: Digest,
    pub parent: Digest,
    pub round: Round,
    pub first_seq: u64,
    /// Result of the independent full validity check (author = leader, signatures, certificates).
    pub valid: Result<(), String>,
    /// Identity over the four bound fields in a length-prefixed encoding (C20 cross-check).
    pub bound_id: Digest,
}

#[derive(Clone, Debug)]
pub struct CommitRec {
    pub seq: u64,
    pub t_us: u64,
    pub digest: Digest,
    pub round: Round,
}

#[derive(Default)]
pub struct NodeObs {
    pub commits: Vec<CommitRec>,
    pub commit_set: HashSet<Digest>,
    /// key -> (seq of first write, hash of value, number of writes)
    pub store: HashMap<Vec<u8>, (u64, Digest, u32)>,
    /// key -> virtual time of the first write
    pub store_t: HashMap<Vec<u8>, u64>,
}

pub static KEEP_TRACE: std::sync::atomic::AtomicBool = std::sync::atomic::AtomicBool::new(false);

pub struct Observer {
    pub members: Members,
    pub honest: Vec<bool>,
    pub n: usize,
    pub blocks: HashMap<Digest, BlockRec>,
    /// Every distinct content seen under one digest (the digest does not bind signature, QC votes, TC).
    pub variants: HashMap<Digest, Vec<Block>>,
    pub nodes: Vec<NodeObs>,
    pub violations: Vec<Violation>,
    pub probes: BTreeMap<String, u64>,
    /// Canonical committed chain (digests from the first block after genesis to the tip).
    pub canon: Vec<Digest>,
    pub canon_set: HashSet<Digest>,
    /// Hash of (kind, node, round-relative) sequence: the interleaving signature of the run.
    pub sig_hash: u64,
    pub last_seq: u64,
    pub last_t: u64,
    /// Highest consensus round seen on the wire, and rounds newly reached since the last drain.
    pub max_round_seen: u64,
    pub new_rounds: Vec<u64>,
    pub ext: crate::monitors::Ext,
    pub trace: Option<Vec<usize>>,
    /// Last events of the run in readable form (only kept while a violation is being documented).
    pub recent: std::collections::VecDeque<String>,
    pub keep_recent: bool,
}

pub enum Decoded {
    Cons(ConsensusMessage),
    Memp(MempoolMessage),
    Raw,
    Undecodable,
}

/// Deserialisation that survives a panicking decoder in the code under test (the decoders of
/// keys are reachable from untrusted bytes; a panic there is itself a C15 observation, recorded
/// by the panic hook, and must not take the harness down).
pub fn safe_deserialize<T: serde::de::DeserializeOwned>(data: &[u8]) -> Option<T> {
    match std::panic::catch_unwind(|| bincode::deserialize::<T>(data)) {
        Ok(Ok(v)) => Some(v),
        _ => None,
    }
}

pub fn decode(ev: &TapEvent, data: &[u8]) -> Decoded {
    if !ev.to_listener {
        return Decoded::Raw;
    }
    match ev.svc {
        SVC_CONSENSUS => match safe_deserialize::<ConsensusMessage>(data) {
            Some(m) => Decoded::Cons(m),
            None => Decoded::Undecodable,
        },
        SVC_MEMPOOL => match safe_deserialize::<MempoolMessage>(data) {
            Some(m) => Decoded::Memp(m),
            None => Decoded::Undecodable,
        },
        SVC_TX => Decoded::Raw,
        _ => Decoded::Undecodable,
    }
}

impl Observer {
    pub fn new(members: Members, honest: Vec<bool>) -> Self {
        let n = honest.len();
        Observer {
            members,
            honest,
            n,
            blocks: HashMap::new(),
            variants: HashMap::new(),
            nodes: (0..n).map(|_| NodeObs::default()).collect(),
            violations: Vec::new(),
            probes: BTreeMap::new(),
            canon: Vec::new(),
            canon_set: HashSet::new(),
            sig_hash: 0,
            last_seq: 0,
            last_t: 0,
            max_round_seen: 0,
            new_rounds: Vec::new(),
            ext: crate::monitors::Ext::new(n),
            recent: std::collections::VecDeque::new(),
            keep_recent: KEEP_TRACE.load(std::sync::atomic::Ordering::SeqCst),
            trace: std::env::var("HSIM_TRACE").ok().map(|v| v.split(',').filter_map(|x| x.parse().ok()).collect()),
        }
    }

    pub fn note_recent(&mut self, line: String) {
        if self.recent.len() >= 200 {
            self.recent.pop_front();
        }
        self.recent.push_back(line);
    }

    pub fn probe(&mut self, name: &str) {
        *self.probes.entry(name.to_string()).or_insert(0) += 1;
    }

    pub fn probe_n(&mut self, name: &str, k: u64) {
        *self.probes.entry(name.to_string()).or_insert(0) += k;
    }

    pub fn violate(&mut self, prop: &str, rule: &str, node: Option<usize>, detail: String) {
        // Keep the first occurrence of each (prop, rule, node) and count the rest.
        let dup = self.violations.iter().any(|v| v.prop == prop && v.rule == rule && v.node == node);
        self.probe(&format!("viol.{}.{}", prop, rule));
        if dup {
            return;
        }
        if self.keep_recent {
            let line = format!("seq={} t={}us VIOLATION {}.{}: {}", self.last_seq, self.last_t, prop, rule, detail);
            self.note_recent(line);
        }
        self.violations.push(Violation {
            prop: prop.to_string(),
            rule: rule.to_string(),
            detail,
            seq: self.last_seq,
            t_us: self.last_t,
            node,
        });
    }

    pub fn is_honest_node(&self, i: NodeId) -> bool {
        i < self.n && self.honest[i]
    }

    pub fn idx(&self, k: &PublicKey) -> Option<usize> {
        self.members.index(k)
    }

    /// Enter a block into the global table (from any source that shows its full content).
    pub fn learn_block(&mut self, b: &Block, seq: u64) -> Digest {
        let d = ident::block_digest(b);
        {
            let cid = ident::content_id(b);
            let v = self.variants.entry(d.clone()).or_default();
            if v.len() < 16 && !v.iter().any(|x| ident::content_id(x) == cid) {
                v.push(b.clone());
            }
        }
        // The digest does not bind the signature, the QC's votes or the TC: several variants may
        // share it. Keep the first one, but prefer a fully valid variant once one shows up.
        let replace = match self.blocks.get(&d) {
            None => true,
            Some(rec) => rec.valid.is_err() && ident::content_id(&rec.block) != ident::content_id(b) && ident::check_block(b, &self.members).is_ok(),
        };
        if replace {
            let fresh = !self.blocks.contains_key(&d);
            let mut enc: Vec<u8> = Vec::new();
            enc.extend_from_slice(&b.author.0);
            enc.extend_from_slice(&b.round.to_be_bytes());
            enc.extend_from_slice(&(b.payload.len() as u64).to_be_bytes());
            for x in &b.payload {
                enc.extend_from_slice(&x.0);
            }
            enc.extend_from_slice(&b.qc.hash.0);
            let bound_id = ident::bytes_digest(&enc);
            let valid = ident::check_block(b, &self.members);
            if fresh {
                self.ext.children.entry(b.qc.hash.clone()).or_default().push(d.clone());
            }
            self.blocks.insert(
                d.clone(),
                BlockRec { block: b.clone(), digest: d.clone(), parent: b.qc.hash.clone(), round: b.round, first_seq: seq, valid, bound_id },
            );
            if fresh {
                crate::monitors::on_block_learned(self, &d);
            }
        }
        d
    }

    pub fn fold_sig(&mut self, parts: &[u64]) {
        let mut v = vec![self.sig_hash];
        v.extend_from_slice(parts);
        self.sig_hash = crate::rng::mix(&v);
    }

    // ---- inputs -------------------------------------------------------------------------

    pub fn on_tap(&mut self, ev: &TapEvent) {
        self.last_seq = ev.seq;
        self.last_t = ev.t_us;
        match &ev.kind {
            TapKind::Frame { phase, fidx, data } => {
                let dec = decode(ev, data);
                if self.keep_recent {
                    let what = match &dec {
                        Decoded::Cons(m) => format!("{:?}", m),
                        Decoded::Memp(MempoolMessage::Batch(t)) => format!("Batch {} ({} txs)", ident::short(&ident::bytes_digest(data)), t.len()),
                        Decoded::Memp(MempoolMessage::BatchRequest(d, _)) => format!("BatchRequest {:?}", d.iter().map(ident::short).collect::<Vec<_>>()),
                        Decoded::Raw => format!("{} raw bytes", data.len()),
                        Decoded::Undecodable => format!("{} undecodable bytes", data.len()),
                    };
                    let mut what = what;
                    what.truncate(160);
                    self.note_recent(format!("seq={} t={}us {}->{} svc{} conn#{} {:?} frame{}: {}", ev.seq, ev.t_us, ev.src(), ev.dst(), ev.svc, ev.conn_idx, phase, fidx, what));
                }
                if let Some(f) = self.trace.as_ref() {
                    if ev.svc == SVC_MEMPOOL && (f.is_empty() || f.iter().any(|x| *x == ev.src() || *x == ev.dst())) {
                        let what = match &dec {
                            Decoded::Memp(MempoolMessage::Batch(t)) => format!("Batch {} ({} txs)", ident::short(&ident::bytes_digest(data)), t.len()),
                            Decoded::Memp(MempoolMessage::BatchRequest(d, _)) => format!("BatchRequest {:?}", d.iter().map(ident::short).collect::<Vec<_>>()),
                            _ => format!("reply {:?}", String::from_utf8_lossy(data)),
                        };
                        eprintln!("TRACE seq={} t={} {}->{} c{}#{} {:?} f{} MEMPOOL {}", ev.seq, ev.t_us, ev.src(), ev.dst(), ev.conn, ev.conn_idx, phase, fidx, what);
                    }
                }
                if let (Some(f), Decoded::Cons(m)) = (self.trace.as_ref(), &dec) {
                    if f.is_empty() || f.iter().any(|x| *x == ev.src() || *x == ev.dst()) {
                        eprintln!("TRACE seq={} t={} {}->{} c{}#{} {:?} f{} {:?}", ev.seq, ev.t_us, ev.src(), ev.dst(), ev.conn, ev.conn_idx, phase, fidx, m);
                    }
                }
                if let Decoded::Cons(ConsensusMessage::Propose(b)) = &dec {
                    self.learn_block(b, ev.seq);
                }
                if let (Decoded::Cons(m), Phase::Written) = (&dec, *phase) {
                    if self.is_honest_node(ev.src()) {
                        let r = match m {
                            ConsensusMessage::Propose(b) => b.round,
                            ConsensusMessage::Vote(v) => v.round,
                            ConsensusMessage::Timeout(t) => t.round,
                            ConsensusMessage::TC(t) => t.round,
                            ConsensusMessage::SyncRequest(..) => 0,
                        };
                        while self.max_round_seen < r && r - self.max_round_seen < 100_000 {
                            self.max_round_seen += 1;
                            let x = self.max_round_seen;
                            self.new_rounds.push(x);
                        }
                    }
                }
                crate::monitors::on_frame(self, ev, *phase, *fidx, data, &dec);
            }
            other => {
                if self.keep_recent {
                    self.note_recent(format!("seq={} t={}us connection {}=>{} svc{} #{}: {:?}", ev.seq, ev.t_us, ev.dialer, ev.listener, ev.svc, ev.conn_idx, other));
                }
                if let Some(f) = self.trace.as_ref() {
                    if f.is_empty() || f.iter().any(|x| *x == ev.dialer || *x == ev.listener) {
                        eprintln!("TRACE seq={} t={} conn c{}#{} {}=>{} svc{} {:?}", ev.seq, ev.t_us, ev.conn, ev.conn_idx, ev.dialer, ev.listener, ev.svc, other);
                    }
                }
                crate::monitors::on_conn_event(self, ev, other)
            }
        }
    }

    pub fn on_commit(&mut self, node: NodeId, b: &Block, seq: u64, t_us: u64) {
        self.last_seq = seq;
        self.last_t = t_us;
        let d = self.learn_block(b, seq);
        self.probe("commit");
        self.fold_sig(&[7, node as u64, b.round]);
        if self.keep_recent {
            self.note_recent(format!("seq={} t={}us node {} COMMIT round {} {}", seq, t_us, node, b.round, ident::short(&d)));
        }
        if self.trace.as_ref().map_or(false, |f: &Vec<usize>| f.contains(&node)) {
            eprintln!("TRACE seq={} t={} node {} COMMIT round {} {}", seq, t_us, node, b.round, ident::short(&d));
        }

        // ---- C02: per-node delivery order -------------------------------------------------
        if b.round == 0 || b.author == PublicKey::default() {
            self.violate("C02", "genesis-delivered", Some(node), format!("node {} delivered the genesis placeholder (round {})", node, b.round));
        }
        let prev = self.nodes[node].commits.last().cloned();
        match &prev {
            None => {
                if !ident::is_genesis_qc(&b.qc) {
                    self.violate(
                        "C02",
                        "first-not-child-of-genesis",
                        Some(node),
                        format!("node {}: first delivered block r{} {} has parent {} (qc round {})", node, b.round, ident::short(&d), ident::short(&b.qc.hash), b.qc.round),
                    );
                }
            }
            Some(p) => {
                if b.qc.hash != p.digest {
                    let rule = if self.nodes[node].commit_set.contains(&d) {
                        "duplicate"
                    } else if b.round <= p.round {
                        "out-of-order"
                    } else {
                        "parent-link"
                    };
                    self.violate(
                        "C02",
                        rule,
                        Some(node),
                        format!(
                            "node {}: delivered r{} {} (parent {}) right after r{} {}",
                            node,
                            b.round,
                            ident::short(&d),
                            ident::short(&b.qc.hash),
                            p.round,
                            ident::short(&p.digest)
                        ),
                    );
                }
                if b.round > p.round + 1 {
                    self.probe("C02.commit-across-round-gap");
                }
            }
        }
        self.nodes[node].commits.push(CommitRec { seq, t_us, digest: d.clone(), round: b.round });
        self.nodes[node].commit_set.insert(d.clone());

        // ---- C01: global agreement --------------------------------------------------------
        if self.is_honest_node(node) && b.round != 0 {
            self.check_agreement(node, &d);
        }
        crate::monitors::on_commit(self, node, b, &d, seq);
    }

    fn check_agreement(&mut self, node: NodeId, d: &Digest) {
        if self.canon_set.contains(d) {
            return;
        }
        // Walk up from d until we hit the canonical chain or genesis.
        let mut path = vec![d.clone()];
        let mut cur = d.clone();
        let mut steps = 0;
        loop {
            steps += 1;
            if steps > 100_000 {
                self.probe("C01.walk-too-long");
                return;
            }
            let parent = match self.blocks.get(&cur) {
                Some(r) => r.parent.clone(),
                None => {
                    self.probe("C01.unknown-ancestor");
                    return;
                }
            };
            if parent == Digest::default() {
                // Reached genesis without meeting the canonical chain.
                if self.canon.is_empty() {
                    path.reverse();
                    for x in path {
                        self.canon_set.insert(x.clone());
                        self.canon.push(x);
                    }
                } else {
                    self.violate("C01", "fork-from-genesis", Some(node), format!("node {} committed {} which is on a chain from genesis disjoint from the committed chain", node, ident::short(d)));
                }
                return;
            }
            if self.canon_set.contains(&parent) {
                if self.canon.last() == Some(&parent) {
                    path.reverse();
                    for x in path {
                        self.canon_set.insert(x.clone());
                        self.canon.push(x);
                    }
                } else {
                    let r = self.blocks.get(d).map(|b| b.round).unwrap_or(0);
                    let tip = self.canon.last().cloned().unwrap();
                    let tr = self.blocks.get(&tip).map(|b| b.round).unwrap_or(0);
                    self.violate(
                        "C01",
                        "conflicting-commit",
                        Some(node),
                        format!(
                            "node {} committed r{} {} branching off the committed chain at {} while the committed tip is r{} {}",
                            node,
                            r,
                            ident::short(d),
                            ident::short(&parent),
                            tr,
                            ident::short(&tip)
                        ),
                    );
                }
                return;
            }
            path.push(parent.clone());
            cur = parent;
        }
    }

    pub fn on_store_write(&mut self, node: NodeId, key: &[u8], value: &[u8], seq: u64, t_us: u64) {
        self.last_seq = seq;
        self.last_t = t_us;
        let vh = ident::bytes_digest(value);
        self.nodes[node].store_t.entry(key.to_vec()).or_insert(t_us);
        let e = self.nodes[node].store.entry(key.to_vec()).or_insert((seq, vh.clone(), 0));
        e.2 += 1;
        let changed = e.1 != vh;
        if changed {
            self.probe("store.key-overwritten-with-different-value");
        }
        crate::monitors::on_store_write(self, node, key, value, &vh, seq);
    }

    pub fn finish(&mut self, end_us: u64) {
        crate::monitors::on_end(self, end_us);
    }
}

