//! Per-property check specifications: generator, non-triviality rule, required reach probes.
use crate::cluster::RunReport;
use crate::scenario::Scenario;

pub struct PropSpec {
    pub id: &'static str,
    pub level: &'static str,
    pub gen: fn(u64, bool) -> Scenario,
    pub gen_rule: &'static str,
    pub nontrivial: fn(&RunReport) -> bool,
    pub nontrivial_rule: &'static str,
    pub required_probes: &'static [&'static str],
    pub quick_runs: usize,
    pub thorough_runs: usize,
    pub quick_wall_s: f64,
    pub thorough_wall_s: f64,
    pub assumptions: &'static [&'static str],
}

fn p(rep: &RunReport, name: &str) -> u64 {
    rep.probes.get(name).cloned().unwrap_or(0)
}

const CLUSTER_RULE: &str = "Scenario seeds are SplitMix64(VERIF_SEED, property, k); each expands into a cluster scenario (world W1: real nodes via Node::new over the simulated network) with its own committee size/stakes, timeouts, latency shape and a random subset of fault kinds (slow leaders for seeded rounds, partitions, crashes, connection resets, stalls, latency spikes, clock jumps, short/pending writes, split reads, staggered boot).";

const COMMON_ASSUMPTIONS: &[&str] = &[
    "sampling, not enumeration: a clean batch is evidence, not proof",
    "intra-node interleavings are those of tokio's current_thread scheduler under varied event timing, select! seeds and scheduler knobs",
    "TCP is modelled as ordered bytes, EOF and errors; RocksDB is real but disk faults are not injected (no property quantifies over them)",
    "oracles use an independent re-implementation of digests, signature checks, quorum and leader election",
];

pub fn specs() -> Vec<PropSpec> {
    vec![
        PropSpec {
            id: "C01",
            level: "exploration",
            gen: |s, t| crate::gen::chaos("C01", s, t),
            gen_rule: CLUSTER_RULE,
            nontrivial: |r| p(r, "commit") > 0 && r.faults.values().sum::<u64>() > 0,
            nontrivial_rule: "at least one block was committed and at least one fault actually fired",
            required_probes: &["commit"],
            quick_runs: 160,
            thorough_runs: 6000,
            quick_wall_s: 60.0,
            thorough_wall_s: 900.0,
            assumptions: COMMON_ASSUMPTIONS,
        },
        PropSpec {
            id: "C02",
            level: "exploration",
            gen: |s, t| crate::gen::chaos("C02", s, t),
            gen_rule: CLUSTER_RULE,
            nontrivial: |r| p(r, "C02.commit-across-round-gap") > 0,
            nontrivial_rule: "some node delivered a block whose round is more than one above the previously delivered block (a commit across a view change)",
            required_probes: &["commit", "C02.commit-across-round-gap"],
            quick_runs: 160,
            thorough_runs: 6000,
            quick_wall_s: 60.0,
            thorough_wall_s: 900.0,
            assumptions: COMMON_ASSUMPTIONS,
        },
    ]
}

pub fn find(id: &str) -> Option<PropSpec> {
    specs().into_iter().find(|s| s.id == id)
}
