//! Per-property check specifications: generator, non-triviality rule, required reach probes.
use crate::cluster::RunReport;
use crate::scenario::Scenario;

pub struct PropSpec {
    pub id: &'static str,
    pub level: &'static str,
    pub gen: fn(u64, bool) -> Scenario,
    pub gen_rule: &'static str,
    pub nontrivial: fn(&RunReport) -> bool,
    pub nontrivial_rule: &'static str,
    pub required_probes: &'static [&'static str],
    pub quick_runs: usize,
    pub thorough_runs: usize,
    pub quick_wall_s: f64,
    pub thorough_wall_s: f64,
    pub assumptions: &'static [&'static str],
    /// A finite enumerated sub-space: (number of cases, case k). Runs k < count come from it.
    pub enumerated: Option<(fn() -> usize, fn(usize) -> Option<Scenario>)>,
}

fn p(rep: &RunReport, name: &str) -> u64 {
    rep.probes.get(name).cloned().unwrap_or(0)
}

const CLUSTER_RULE: &str = "Scenario seeds are SplitMix64(VERIF_SEED, property, k); each expands into a cluster scenario (world W1: real nodes via Node::new over the simulated network) with its own committee size/stakes, timeouts, latency shape and a random subset of fault kinds (slow leaders for seeded rounds, partitions, crashes, connection resets, stalls, latency spikes, clock jumps, short/pending writes, split reads, staggered boot).";

const COMMON_ASSUMPTIONS: &[&str] = &[
    "sampling, not enumeration: a clean batch is evidence, not proof",
    "intra-node interleavings are those of tokio's current_thread scheduler under varied event timing, select! seeds and scheduler knobs",
    "TCP is modelled as ordered bytes, EOF and errors; RocksDB is real but disk faults are not injected (no property quantifies over them)",
    "oracles use an independent re-implementation of digests, signature checks, quorum and leader election",
];

fn f(rep: &RunReport, name: &str) -> u64 {
    rep.faults.get(name).cloned().unwrap_or(0)
}

fn spec(
    id: &'static str,
    gen: fn(u64, bool) -> Scenario,
    gen_rule: &'static str,
    nontrivial: fn(&RunReport) -> bool,
    nontrivial_rule: &'static str,
    required_probes: &'static [&'static str],
    quick_runs: usize,
    thorough_runs: usize,
) -> PropSpec {
    PropSpec { id, level: "exploration", gen, gen_rule, nontrivial, nontrivial_rule, required_probes, quick_runs, thorough_runs, quick_wall_s: 150.0, thorough_wall_s: 1200.0, assumptions: COMMON_ASSUMPTIONS, enumerated: None }
}

const BOTH_RULE: &str = "Two thirds of the scenarios are cluster scenarios (world W1: real nodes via Node::new over the simulated network, each with its own committee size/stakes, timeouts, latency shape and a random subset of fault kinds: slow leaders for seeded rounds, partitions, crashes, connection resets, stalls, latency spikes, clock jumps, short/pending writes, split reads, staggered boot). One third are puppet scenarios (world W2: ONE real node, all other authorities played by the harness with their keys; a seeded policy delivers one action per quiescence step: valid proposals with or without TC, equivocating siblings, stale proposals, missing payloads, votes / timeouts trickled one per step, TCs, timer expiries, duplicates, conflicting votes, replays, invalid variants).";

const C12_RULE: &str = "Scenario seeds are SplitMix64(VERIF_SEED, property, k); each expands into a cluster scenario biased to the mempool dissemination path: equal, skewed and dominant-member stakes, small batches, many transactions, acknowledgement (reply) direction of seeded mempool links held for a while or for ever, mempool links cut or slowed, connection resets, occasional slow leaders.";
const C11_RULE: &str = "Scenario seeds are SplitMix64(VERIF_SEED, property, k); each expands into a 4-node cluster on a healthy network where two nodes receive transactions of sizes 0, 1, 8, 9, batch_size-1, batch_size, batch_size+1, several batch sizes and random, from three client connections each, with arrival gaps 0, sub-millisecond, exactly max_batch_delay, max_batch_delay +- 1 ms and random; batch_size in {1,9,50,200,1000}, max_batch_delay in {5,20,50,100} ms per node.";
const C13_RULE: &str = "Scenario seeds are SplitMix64(VERIF_SEED, property, k); each expands into a cluster scenario without crashes or view-change faults (timeouts 2-4 s, latencies below 2% of them): client load over all nodes, and for seeded (node, peers, interval) triples the mempool links of a node are cut so that it misses batch broadcasts and must fetch the batches when blocks referencing them arrive (first from the proposer, on failure from random peers); wall-clock jumps.";
const C06_RULE: &str = "Scenario seeds are SplitMix64(VERIF_SEED, property, k); each expands into a cluster of 4..7 nodes (equal and unequal stakes, optional per-node timeout skew 0.7-1.5x) in which authorities within the stake budget f crash at arbitrary instants (at boot, before, at, after stabilisation), messages suffer heavy-tail delays and finite stalls before a seeded stabilisation instant (nothing is lost between live nodes, all boot together), and afterwards every message takes less than a twelfth of the smallest round timeout.";
const C07_RULE: &str = "Three quarters of the scenarios: Scenario seeds are SplitMix64(VERIF_SEED, property, k); each expands into a cluster of 4..7 nodes where one seeded node is cut off (all its connections reset and refused) for a seeded interval while the others keep committing, with or without slow-leader view changes inside the gap; after the heal one peer's consensus port may stay mute towards it, and the wall clock may jump; one other node may crash around the heal, or the author of the first proposal that reaches the lagger after the heal crashes at that instant. One quarter: puppet scenarios (world W2) in which the harness withholds a certified parent, leaves the node's first sync request unanswered and keeps delivering further blocks on top of the same missing parent (timed-out rounds) until the node asks the other peers.";

const PUPPET_RULE: &str = "Scenario seeds are SplitMix64(VERIF_SEED, property, k); each expands into a puppet scenario (world W2): ONE real node booted through Node::new, committee of 4..7 with equal or unequal stakes, all other authorities played by the harness which holds their keys. A seeded policy delivers one action per quiescence step (valid proposals for the node's round with or without TC, equivocating siblings, stale proposals, proposals with missing payloads, votes / timeouts trickled to the node one per step when it is the collector, TCs, timer expiries, replays, sync probes) and, with a per-run probability, one of 36 kinds of invalid variant (flipped signature bits, altered signed fields with the signature kept, transplanted signatures across blocks and message kinds, certificates with repeated / non-member signers, below quorum, over another round, for future rounds, padded with an invalid entry after a genuine quorum).";

const C14_RULE: &str = "World W3 (reliable sender): the real ReliableSender against the real network::Receiver with a handler replying ack:<message>. ENUMERATED completely: m in 1..4 messages handed over in a burst or 5 ms apart; no break or one break of the first connection at every frame position (request k lost in flight / request k just received / acknowledgement k lost in flight / acknowledgement k just received); 0..3 refused (re)connection attempts; no cancellation or the handle of message j dropped right after hand-over, 2 ms later (written, acknowledgement in flight) or 50 ms later. ON TOP, seeded exploration: up to 50 messages, several breaks on successive connections, peer-down intervals, cancellations at random instants, short writes, pending writes and split reads.";

pub fn specs() -> Vec<PropSpec> {
    vec![
        spec("C15", crate::gen::c15, "Cluster scenario (world W1) with five authorities, one of them silent and played by the harness (its key signs well-formed messages with absurd content), healthy network and client load. Between 0.4 s and 2.5-4 s, 20-200 hostile inputs hit the consensus, mempool and transaction ports of the four real nodes: empty frames, random bytes, length prefixes above the 8 MiB codec limit, truncated frames followed by a close, bit-flipped / truncated / extended copies of real frames captured from the tap, enum tags out of range, vector lengths of 2^58..2^60, public-key strings that are not base64 or decode to fewer than 32 bytes, sync requests naming a mempool batch key of the shared store, batch requests naming a consensus block key, requests from unknown origins, votes / timeouts of round 2^64-1, a proposal for a round near 2^64 on top of genesis, a TC without votes, 1 MiB transactions. Afterwards every node is probed: it must still commit, answer a sync request and a batch request from its store, and batch a fresh transaction. Both build configurations are run.",
            |r| p(r, "C15.service-probe") > 0 && f(r, "hostile-frame") > 0,
            "hostile inputs were injected and the service probes ran",
            &["C15.service-probe", "C15.service-ok.b", "C15.service-ok.m", "C15.service-ok.t", "C15.service-ok.c", "hostile.sync-request-for-batch-key", "hostile.batch-request-for-block-key", "hostile.kind12", "hostile.kind34", "hostile.sync-request-boundary-digest"], 180, 600),
        PropSpec {
            id: "C16",
            level: "exploration",
            gen: crate::gen::c16,
            gen_rule: "World W3 (store): the real Store (RocksDB on tmpfs) with 2..6 client tasks holding clones of the handle, 1..4 overlapping keys, unique values; each client runs a seeded sequence of writes, reads and notify-reads separated by seeded numbers of yields (so the interleaving of their commands is the seed's choice), with 0..5 waiters per key registered before and after writes; then every handle is dropped, the store task ends, and the store is reopened on the same path. The store-side taps give the exact command order, against which every result is checked with a map model.",
            nontrivial: |r| p(r, "st.waiters-woken-by-write") > 0 && p(r, "st.read-hit") > 0,
            nontrivial_rule: "at least one notify-read was registered before the write that released it, and at least one read hit a written key",
            required_probes: &["st.waiters-woken-by-write", "st.notify-immediate", "st.read-hit", "st.read-miss", "st.several-waiters-one-key", "st.reopen-value-checked", "st.notify-still-pending"],
            quick_runs: 4000,
            thorough_runs: 20_000,
            quick_wall_s: 150.0,
            thorough_wall_s: 1200.0,
            assumptions: &[
                "sampling of interleavings, not enumeration; the interleaving is varied through yields and tokio scheduler knobs, not by an own poll-order scheduler",
                "RocksDB is real; a process kill (loss of unsynced data) is not simulated, reopen happens after the store task has ended",
                "the order in which the store task takes up commands is observed through the verification taps (observation only)",
            ],
            enumerated: None,
        },
        PropSpec {
            id: "C14",
            level: "fault_enumeration",
            gen: crate::gen::c14_random,
            gen_rule: C14_RULE,
            nontrivial: |r| p(r, "rs.reset") > 0 || f(r, "refuse-scripted") > 0 || p(r, "rs.cancelled") > 0,
            nontrivial_rule: "a connection was actually broken, a connection attempt refused, or a handle dropped",
            required_probes: &["rs.retransmission", "rs.duplicate-delivery", "rs.cancelled", "rs.reset", "rs.resolved"],
            quick_runs: 3472 + 3000,
            thorough_runs: 3472 + 60_000,
            quick_wall_s: 150.0,
            thorough_wall_s: 1200.0,
            assumptions: &[
                "the enumerated sub-space is covered completely; beyond it this is sampling",
                "TCP is modelled as ordered bytes, EOF and reset; a break loses the bytes in flight in both directions",
                "liveness is judged after a quiet tail (20 s virtual in the enumerated cases, 150 s in exploration: the back-off is capped at 60 s)",
            ],
            enumerated: Some((crate::gen::c14_cases, crate::gen::c14_case)),
        },
        spec("C04", |s, t| crate::gen::puppet("C04", s, t), PUPPET_RULE, |r| p(r, "puppet.invalid-injected") > 0 && p(r, "puppet.vote-as-expected") > 0,
            "at least one invalid variant was injected and the node voted for a valid proposal as the model expected (so rejection and normal operation were both exercised)",
            &["puppet.invalid-injected", "puppet.vote-as-expected", "puppet.node-proposed", "C19.tc-broadcast"], 1500, 8000),
        spec("C20", |s, t| crate::gen::puppet("C20", s, t), PUPPET_RULE, |r| p(r, "puppet.invalid-injected") > 0 && p(r, "puppet.sync-probe-answered") > 0,
            "a field-altering or signature-transplanting variant was injected and the node's helper answered a sync probe from its store",
            &["puppet.invalid-injected", "puppet.sync-probe-answered", "puppet.vote-as-expected"], 1500, 10000),
        PropSpec {
            id: "C01",
            level: "exploration",
            gen: |s, t| crate::gen::chaos("C01", s, t),
            gen_rule: CLUSTER_RULE,
            nontrivial: |r| p(r, "commit") > 0 && r.faults.values().sum::<u64>() > 0,
            nontrivial_rule: "at least one block was committed and at least one fault actually fired",
            required_probes: &["commit"],
            quick_runs: 360,
            thorough_runs: 2400,
            quick_wall_s: 150.0,
            thorough_wall_s: 1200.0,
            assumptions: COMMON_ASSUMPTIONS,
            enumerated: None,
        },
        spec("C02", |s, t| crate::gen::chaos("C02", s, t), CLUSTER_RULE, |r| p(r, "C02.commit-across-round-gap") > 0,
            "some node delivered a block whose round is more than one above the previously delivered block (a commit across a view change)",
            &["commit", "C02.commit-across-round-gap", "C05.ancestor-commit"], 400, 3000),
        spec("C03", |s, t| if s % 3 == 0 { crate::gen::puppet("C03", s, t) } else { crate::gen::chaos("C03", s, t) }, BOTH_RULE, |r| p(r, "C03.vote-on-wire") > 0 && p(r, "C10.timeout-on-wire") > 0,
            "votes and timeouts of honest nodes both appeared on the wire (the vote/timeout interplay was exercised)",
            &["C03.vote-on-wire", "C10.timeout-on-wire", "C19.qc-emitted"], 400, 1500),
        spec("C05", |s, t| if s % 3 == 0 { crate::gen::puppet("C05", s, t) } else { crate::gen::chaos("C05", s, t) }, BOTH_RULE, |r| p(r, "C05.ancestor-commit") > 0 || p(r, "C02.commit-across-round-gap") > 0,
            "a commit delivered uncommitted ancestors or crossed a round gap (so chains with gaps at either position of the 2-chain occurred)",
            &["C05.direct-commit", "C05.ancestor-commit"], 500, 2200),
        spec("C08", |s, t| if s % 3 == 0 { crate::gen::puppet("C08", s, t) } else { crate::gen::chaos("C08", s, t) }, BOTH_RULE, |r| p(r, "C08.vote-nonempty-payload") > 0 && p(r, "C13.batch-request") > 0,
            "a node voted for a block with a non-empty payload and some node had to request a missing batch",
            &["C08.vote-nonempty-payload", "C08.commit-nonempty-payload", "C13.batch-request"], 300, 1400),
        spec("C09", |s, t| if s % 3 == 0 { crate::gen::puppet("C09", s, t) } else { crate::gen::chaos("C09", s, t) }, BOTH_RULE, |r| p(r, "C09.rotation-window") > 0 && p(r, "C10.timeout-on-wire") > 0,
            "n consecutive voted rounds were observed and at least one timeout occurred",
            &["C09.proposal", "C09.rotation-window"], 300, 1800),
        spec("C10", |s, t| if s % 3 == 0 { crate::gen::puppet("C10", s, t) } else { crate::gen::chaos("C10", s, t) }, BOTH_RULE, |r| p(r, "C19.tc-broadcast") > 0,
            "a timeout certificate was assembled and broadcast by an honest node (rounds advanced through the timeout path)",
            &["C10.evidence-checked", "C10.timeout-on-wire", "C19.tc-broadcast"], 500, 5000),
        spec("C19", |s, t| if s % 3 == 0 { crate::gen::puppet("C19", s, t) } else { crate::gen::chaos("C19", s, t) }, BOTH_RULE, |r| p(r, "C19.tc-broadcast") > 0 && p(r, "C19.qc-emitted") > 0,
            "honest nodes emitted both QCs and TCs",
            &["C19.qc-emitted", "C19.tc-broadcast"], 400, 3000),
        spec("C12", crate::gen::c12, C12_RULE, |r| p(r, "C12.own-batch-stored") > 0 && (f(r, "mute-ack") + f(r, "mempool-cut") + f(r, "mempool-delay") + f(r, "reset")) > 0,
            "a node released an own batch and a fault on the acknowledgement path (held replies, cut or slowed mempool link, reset) actually fired",
            &["C12.own-batch-stored", "C12.ack-seen", "C12.quorum-checked"], 160, 900),
        spec("C11", crate::gen::c11, C11_RULE, |r| p(r, "C11.own-batch") >= 2,
            "at least two batches were sealed",
            &["C11.own-batch", "C11.batch-stored", "tx.delivered"], 300, 1000),
        spec("C13", crate::gen::c13, C13_RULE, |r| p(r, "C13.judged-end-to-end") > 0 && p(r, "tx.delivered") > 0 && p(r, "C13.batch-request") > 0,
            "the run stayed inside the premise (no timeout, no view change) and was judged end to end, transactions were submitted, and some node had to fetch a missing batch",
            &["tx.delivered", "C13.batch-request", "C13.batch-served-by-helper", "C13.judged-end-to-end"], 240, 900),
        spec("C06", crate::gen::c06, C06_RULE, |r| f(r, "crash") > 0 && p(r, "C19.tc-broadcast") > 0,
            "an authority crashed and a timeout certificate was formed",
            &["commit", "C19.tc-broadcast"], 240, 1800),
        spec("C07", |s, t| if s % 4 == 0 { crate::gen::puppet("C07", s, t) } else { crate::gen::c07(s, t) }, C07_RULE, |r| (p(r, "C07.lagger-was-behind") > 0 && p(r, "C07.sync-request") > 0) || p(r, "puppet.starve-retry-seen") > 0,
            "the reconnected node was behind the others' committed round and sync requests were sent; or (puppet scenarios) the node's retry of an unanswered sync request was observed",
            &["C07.lagger-was-behind", "C07.sync-reply", "puppet.starve-retry-seen"], 300, 1400),
    ]
}

pub fn find(id: &str) -> Option<PropSpec> {
    specs().into_iter().find(|s| s.id == id)
}
