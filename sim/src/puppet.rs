//! World W2: exactly one real node; the harness holds the keys of all other authorities and plays
//! them as puppets with no protocol obligations. Delivery is quiescence-stepped: one action, then
//! a few virtual milliseconds during which the (paused) clock only advances when the node has
//! nothing left to do, so every output is attributed to the step that caused it.
use crate::cluster::{keypair, Cluster, RunReport};
use crate::ident::{self, Members, Round};
use crate::net::{Phase, TapEvent, TapKind, SVC_CONSENSUS, SVC_MEMPOOL};
use crate::rng::Rng;
use crate::scenario::Scenario;
use consensus::{Block, ConsensusMessage, Timeout, Vote, QC, TC};
use crypto::{Digest, PublicKey, SecretKey, Signature};
use mempool::MempoolMessage;
use serde::{Deserialize, Serialize};
use std::collections::{HashMap, HashSet};

#[derive(Clone, Debug, Serialize, Deserialize)]
pub struct PuppetCfg {
    pub real: usize,
    pub steps: usize,
    pub settle_us: u64,
    pub p_invalid: f64,
    pub p_timeout_episode: f64,
    pub p_equivocate: f64,
    pub p_gap: f64,
    pub p_future: f64,
    pub p_withhold_parent: f64,
    pub p_duplicate: f64,
    pub p_stale: f64,
    pub p_payload: f64,
    pub p_sync_probe: f64,
    pub p_mute_ack: f64,
    /// Fully signed and certified proposals that the voting rules nevertheless forbid.
    #[serde(default)]
    pub p_unsafe: f64,
    /// Mutation kinds that may be injected (empty = all).
    #[serde(default)]
    pub only_mutations: Vec<u32>,
}

pub struct Puppet {
    c: Cluster,
    cfg: PuppetCfg,
    real: usize,
    n: usize,
    secrets: Vec<SecretKey>,
    names: Vec<PublicKey>,
    members: Members,
    r: Rng,
    step: usize,
    // ---- model of what exists ----
    known: HashMap<Digest, Block>,
    qc_for: HashMap<Digest, QC>,
    /// Highest certified block the harness extends: (digest, round).
    tip: (Digest, Round),
    /// Valid certificates / quorums ever delivered to the node bound its round from above.
    round_upper: Round,
    /// Highest round in the node's own emissions.
    round_seen: Round,
    /// The node can no longer vote in rounds <= this (it voted, could have voted, or timed out).
    blocked_round: Round,
    node_votes: HashMap<(Round, Digest), Signature>,
    node_timeouts: HashMap<Round, (QC, Signature)>,
    /// Digests of invalid block variants delivered while no valid block with that digest was.
    invalid_only: HashMap<Digest, String>,
    valid_delivered: HashSet<Digest>,
    invalid_since_last_vote: u32,
    expect_vote: Option<(Round, Digest)>,
    /// Votes / timeouts being trickled to the node as next leader: (round, digest) and count.
    trickle_votes: Option<(Round, Digest, Vec<usize>, u64)>,
    trickle_timeouts: Option<(Round, Vec<usize>, u64, bool)>,
    conns: HashMap<(usize, u8), usize>,
    withheld: HashSet<Digest>,
    batches: HashMap<Digest, Vec<u8>>,
    withheld_batches: HashSet<Digest>,
    sent_log: Vec<(usize, Vec<u8>)>,
    sync_probe: Option<(Digest, usize)>,
    mute_ack: bool,
    pending_tc_for_next: Option<TC>,
    /// C19 exactly-when: (kind, round) that must be emitted by the end of the current step.
    expect_cert: Option<(&'static str, Round)>,
    own_vote_counted: bool,
    /// Puppets whose timeout for the current trickle reported the genesis QC (candidates for a
    /// later re-send reporting a higher QC).
    sent_low_timeouts: Vec<usize>,
    /// C07 in W2: a certified parent is withheld while blocks on top of it keep arriving.
    starve: Option<Starve>,
    starve_done: bool,
    /// After a starve episode the node holds many parked blocks; the expectation model (expected
    /// vote, exactly-when) is switched off for the rest of the run.
    model_uncertain: bool,
    /// Content identities of every valid variant (same digest) the node may have stored.
    variants: HashMap<Digest, HashSet<Digest>>,
}

struct Starve {
    parent: Digest,
    first_req: Option<(u64, usize)>,
    steps: usize,
}

fn sign(d: &Digest, s: &SecretKey) -> Signature {
    Signature::new(d, s)
}

impl Puppet {
    pub fn new(sc: &Scenario, dir: &str) -> Self {
        let cfg: PuppetCfg = serde_json::from_value(sc.script.clone()).expect("puppet script");
        let mut sc2 = sc.clone();
        sc2.byz = (0..sc.n).filter(|i| *i != cfg.real).collect();
        // The cluster machinery registers harness listeners for every "Byzantine" authority.
        let mut c = Cluster::new(&sc2, dir);
        c.adversary = None;
        c.obs.lock().unwrap().ext.w2 = true;
        let n = sc.n;
        let secrets: Vec<SecretKey> = (0..n).map(|i| keypair(sc.seed, i).1).collect();
        let names = c.names.clone();
        let members = Members::new(names.clone(), sc.stakes.clone());
        let r = Rng::new(crate::rng::mix(&[sc.seed, 777]));
        let mute_ack = crate::rng::unit(&[sc.seed, 778]) < cfg.p_mute_ack;
        Puppet {
            real: cfg.real,
            c,
            cfg,
            n,
            secrets,
            names,
            members,
            r,
            step: 0,
            known: HashMap::new(),
            qc_for: HashMap::new(),
            tip: (Digest::default(), 0),
            round_upper: 1,
            round_seen: 1,
            blocked_round: 0,
            node_votes: HashMap::new(),
            node_timeouts: HashMap::new(),
            invalid_only: HashMap::new(),
            valid_delivered: HashSet::new(),
            invalid_since_last_vote: 0,
            expect_vote: None,
            trickle_votes: None,
            trickle_timeouts: None,
            conns: HashMap::new(),
            withheld: HashSet::new(),
            batches: HashMap::new(),
            withheld_batches: HashSet::new(),
            sent_log: Vec::new(),
            sync_probe: None,
            mute_ack,
            pending_tc_for_next: None,
            expect_cert: None,
            own_vote_counted: false,
            sent_low_timeouts: Vec::new(),
            starve: None,
            starve_done: false,
            model_uncertain: false,
            variants: HashMap::new(),
        }
    }

    fn puppets(&self) -> Vec<usize> {
        (0..self.n).filter(|i| *i != self.real).collect()
    }

    fn probe(&self, name: &str) {
        self.c.obs.lock().unwrap().probe(name);
    }

    fn violate(&self, prop: &str, rule: &str, detail: String) {
        self.c.obs.lock().unwrap().violate(prop, rule, Some(self.real), detail);
    }

    // ---- fabrication -----------------------------------------------------------------------

    fn mk_block(&self, author: usize, round: Round, qc: QC, tc: Option<TC>, payload: Vec<Digest>) -> Block {
        let mut b = Block { qc, tc, author: self.names[author], round, payload, signature: Signature::default() };
        b.signature = sign(&ident::block_digest(&b), &self.secrets[author]);
        b
    }

    fn mk_vote(&self, author: usize, hash: &Digest, round: Round) -> Vote {
        Vote { hash: hash.clone(), round, author: self.names[author], signature: sign(&ident::vote_digest(hash, round), &self.secrets[author]) }
    }

    fn mk_qc(&self, hash: &Digest, round: Round, signers: &[usize]) -> QC {
        QC { hash: hash.clone(), round, votes: signers.iter().map(|i| (self.names[*i], sign(&ident::vote_digest(hash, round), &self.secrets[*i]))).collect() }
    }

    fn mk_timeout(&self, author: usize, round: Round, high_qc: QC) -> Timeout {
        let sig = sign(&ident::timeout_digest(round, high_qc.round), &self.secrets[author]);
        Timeout { high_qc, round, author: self.names[author], signature: sig }
    }

    fn mk_tc(&self, round: Round, signers: &[usize], high_rounds: &[Round]) -> TC {
        TC { round, votes: signers.iter().zip(high_rounds.iter()).map(|(i, h)| (self.names[*i], sign(&ident::timeout_digest(round, *h), &self.secrets[*i]), *h)).collect() }
    }

    /// A set of puppets holding at least a quorum of stake (seeded order, minimal prefix).
    fn quorum_of_puppets(&mut self) -> Vec<usize> {
        let mut ps = self.puppets();
        self.r.shuffle(&mut ps);
        let q = self.members.quorum();
        let mut acc = 0u64;
        let mut out = Vec::new();
        for p in ps {
            if acc >= q {
                break;
            }
            let s = self.members.stakes[p] as u64;
            if s == 0 {
                continue;
            }
            acc += s;
            out.push(p);
        }
        out
    }

    fn tip_qc(&self) -> QC {
        if self.tip.1 == 0 {
            QC::genesis()
        } else {
            self.qc_for.get(&self.tip.0).cloned().unwrap_or_else(QC::genesis)
        }
    }

    // ---- transport -------------------------------------------------------------------------

    fn conn(&mut self, from: usize, svc: u8) -> Option<usize> {
        if let Some(c) = self.conns.get(&(from, svc)) {
            if self.c.net.conn_alive(*c) {
                return Some(*c);
            }
        }
        match self.c.net.h_connect(from, self.real, svc) {
            Ok(c) => {
                self.conns.insert((from, svc), c);
                Some(c)
            }
            Err(_) => None,
        }
    }

    fn send_cons(&mut self, from: usize, m: &ConsensusMessage) {
        let bytes = bincode::serialize(m).expect("serialize");
        self.send_raw(from, SVC_CONSENSUS, &bytes);
        self.sent_log.push((from, bytes));
    }

    fn send_raw(&mut self, from: usize, svc: u8, bytes: &[u8]) {
        if let Some(c) = self.conn(from, svc) {
            let _ = self.c.net.h_send_frame(c, true, bytes);
        }
    }

    // ---- bookkeeping when the harness delivers something valid -------------------------------

    fn note_valid_cert_delivered(&mut self, round: Round) {
        self.round_upper = self.round_upper.max(round + 1);
    }

    fn deliver_valid_block(&mut self, from: usize, b: &Block) {
        let d = ident::block_digest(b);
        self.known.insert(d.clone(), b.clone());
        self.variants.entry(d.clone()).or_default().insert(ident::content_id(b));
        self.valid_delivered.insert(d.clone());
        self.invalid_only.remove(&d);
        if !ident::is_genesis_qc(&b.qc) {
            self.note_valid_cert_delivered(b.qc.round);
        }
        if let Some(tc) = &b.tc {
            self.note_valid_cert_delivered(tc.round);
        }
        self.send_cons(from, &ConsensusMessage::Propose(b.clone()));
    }

    fn node_stored(&self, d: &Digest) -> bool {
        *d == Digest::default() || self.c.obs.lock().unwrap().nodes[self.real].store.contains_key(&d.0.to_vec())
    }

    fn node_round_estimate(&self) -> Round {
        self.round_seen.max(1)
    }

    // ---- the step policy ------------------------------------------------------------------

    /// C07 ("an unanswered request is retried with other peers"), exact in W2: the node is given a
    /// block whose certified parent the harness withholds; the first sync request stays
    /// unanswered while, round after round, further blocks on top of the same missing parent
    /// arrive (what repeated view changes produce). The node must ask the other peers for the
    /// parent within sync_retry_delay plus the timer granularity.
    fn start_starve(&mut self) -> bool {
        let r = self.round_upper.max(self.node_round_estimate()).max(self.tip.1 + 1);
        let (l0, l1) = (self.members.leader_index(r), self.members.leader_index(r + 1));
        if l0 == self.real || l1 == self.real || self.tip.1 + 1 != r || self.tip.1 < 2 {
            return false;
        }
        let parent = self.mk_block(l0, r, self.tip_qc(), None, vec![]);
        let pd = ident::block_digest(&parent);
        let signers = self.quorum_of_puppets();
        let qc = self.mk_qc(&pd, r, &signers);
        self.known.insert(pd.clone(), parent.clone());
        self.variants.entry(pd.clone()).or_default().insert(ident::content_id(&parent));
        self.qc_for.insert(pd.clone(), qc.clone());
        self.withheld.insert(pd.clone());
        self.tip = (pd.clone(), r);
        let child = self.mk_block(l1, r + 1, qc, None, vec![]);
        self.deliver_valid_block(l1, &child);
        self.starve = Some(Starve { parent: pd, first_req: None, steps: 0 });
        self.model_uncertain = true;
        self.expect_vote = None;
        self.expect_cert = None;
        self.probe("puppet.starve-started");
        true
    }

    fn starve_step(&mut self) {
        let retry_us = self.c.sc.params[self.real].sync_retry_delay * 1_000;
        let now = self.c.net.now_us();
        let (parent, first_req, steps) = {
            let st = self.starve.as_mut().unwrap();
            st.steps += 1;
            (st.parent.clone(), st.first_req, st.steps)
        };
        let overdue = first_req.map_or(false, |(t, _)| now > t + retry_us + 12_000_000);
        if overdue {
            self.violate("C07", "unanswered-request-not-retried", format!("the node asked one peer for block {} and, {} us later and still lacking it, had not asked anybody else although further blocks on top of it kept arriving", ident::short(&parent), now - first_req.unwrap().0));
        }
        if overdue || steps > 70 || !self.withheld.contains(&parent) {
            // Release the parent (if still withheld) and go back to normal operation.
            if self.withheld.remove(&parent) {
                if let Some(b) = self.known.get(&parent).cloned() {
                    let from = self.members.index(&b.author).unwrap_or(0);
                    self.valid_delivered.insert(parent.clone());
                    self.invalid_only.remove(&parent);
                    self.send_cons(from, &ConsensusMessage::Propose(b));
                }
            }
            self.starve = None;
            self.starve_done = true;
            return;
        }
        // Another timed-out round: a TC for the node's round, then the next leader's proposal on
        // top of the same (missing) parent.
        let rr = self.round_upper.max(self.node_round_estimate());
        let signers = self.quorum_of_puppets();
        let highs: Vec<Round> = signers.iter().map(|_| self.tip.1).collect();
        let tc = self.mk_tc(rr, &signers, &highs);
        self.note_valid_cert_delivered(rr);
        self.send_cons(signers[0], &ConsensusMessage::TC(tc.clone()));
        let leader = self.members.leader_index(rr + 1);
        if leader != self.real {
            let b = self.mk_block(leader, rr + 1, self.tip_qc(), Some(tc), vec![]);
            self.deliver_valid_block(leader, &b);
            self.probe("puppet.starve-same-parent-block");
        }
    }

    fn act(&mut self) {
        if self.starve.is_some() {
            self.starve_step();
            return;
        }
        if !self.starve_done && self.trickle_votes.is_none() && self.trickle_timeouts.is_none() && self.step > 20 && self.r.chance(self.cfg.p_withhold_parent * 0.2) && self.start_starve() {
            return;
        }
        // Continue an ongoing trickle of votes / timeouts first (one message per step).
        if self.trickle_votes.is_some() {
            self.trickle_vote_step();
            return;
        }
        if self.trickle_timeouts.is_some() {
            self.trickle_timeout_step();
            return;
        }
        let x = (self.r.next() % 10_000) as f64 / 10_000.0;
        let mut acc = self.cfg.p_invalid;
        if x < acc {
            self.inject_invalid();
            return;
        }
        acc += self.cfg.p_duplicate;
        if x < acc && !self.sent_log.is_empty() {
            // Replay any earlier frame (from its original sender).
            let k = self.r.below(self.sent_log.len());
            let (from, bytes) = self.sent_log[k].clone();
            self.send_raw(from, SVC_CONSENSUS, &bytes);
            self.probe("puppet.replay");
            return;
        }
        acc += self.cfg.p_sync_probe;
        if x < acc {
            self.sync_probe_step();
            return;
        }
        acc += self.cfg.p_stale;
        if x < acc && self.tip.1 > 3 {
            self.stale_proposal();
            return;
        }
        acc += self.cfg.p_unsafe;
        if x < acc && self.tip.1 > 3 {
            self.unsafe_proposal();
            return;
        }
        self.progress();
    }

    /// The main line: make the node's current round succeed or time out.
    fn progress(&mut self) {
        // The round to work on: the node's round, or the one after the harness' certified tip.
        let r = self.round_upper.max(self.node_round_estimate()).max(self.tip.1 + 1);
        let leader = self.members.leader_index(r);
        if leader == self.real {
            // The node leads round r: it proposes by itself on entering the round.
            let mine: Option<Digest> = self.known.iter().find(|(_, b)| b.round == r && b.author == self.names[self.real]).map(|(d, _)| d.clone());
            match mine {
                Some(d) => {
                    // Puppets vote (towards the next leader): the harness now holds a QC.
                    let signers = self.quorum_of_puppets();
                    let qc = self.mk_qc(&d, r, &signers);
                    self.qc_for.insert(d.clone(), qc);
                    self.tip = (d, r);
                    self.probe("puppet.node-proposal-certified");
                    self.propose_round(r + 1);
                }
                None => {
                    // It did not (could not) propose: time the round out.
                    self.timeout_episode(r);
                }
            }
            return;
        }
        let x = (self.r.next() % 10_000) as f64 / 10_000.0;
        if x < self.cfg.p_timeout_episode {
            self.timeout_episode(r);
        } else {
            self.propose_round(r);
        }
    }

    /// A valid proposal for round r by its (puppet) leader, extending the tip.
    fn propose_round(&mut self, r: Round) {
        let leader = self.members.leader_index(r);
        if leader == self.real {
            return;
        }
        let (tip_d, tip_r) = self.tip.clone();
        if tip_r >= r {
            return;
        }
        let qc = self.tip_qc();
        // A gap between the tip and r needs a TC for r - 1.
        let mut tc = None;
        if tip_r + 1 != r {
            tc = Some(match self.pending_tc_for_next.take() {
                Some(t) if t.round + 1 == r => t,
                _ => {
                    let signers = self.quorum_of_puppets();
                    let highs: Vec<Round> = signers.iter().map(|_| self.r.range(0, tip_r)).collect();
                    self.mk_tc(r - 1, &signers, &highs)
                }
            });
        }
        let x = (self.r.next() % 10_000) as f64 / 10_000.0;
        // Payload: usually empty; sometimes digests the node has, lacks for a while, or never gets.
        let mut payload = Vec::new();
        if x < self.cfg.p_payload {
            let k = self.r.range(1, 3);
            for _ in 0..k {
                let tx = Cluster::tx_bytes(40, 7, self.r.next());
                let bytes = bincode::serialize(&MempoolMessage::Batch(vec![tx])).unwrap();
                let d = ident::bytes_digest(&bytes);
                self.batches.insert(d.clone(), bytes.clone());
                match self.r.below(3) {
                    0 => {
                        // Deliver the batch first.
                        self.send_raw(leader, SVC_MEMPOOL, &bytes);
                        self.probe("puppet.batch-sent-before");
                    }
                    1 => {
                        // Answer the node's batch request when it comes.
                        self.probe("puppet.batch-on-request");
                    }
                    _ => {
                        self.withheld_batches.insert(d.clone());
                        self.probe("puppet.batch-withheld");
                    }
                }
                payload.push(d);
            }
        }
        let b = self.mk_block(leader, r, qc, tc, payload.clone());
        let d = ident::block_digest(&b);
        // Equivocation: a sibling for the same round first or afterwards.
        let y = (self.r.next() % 10_000) as f64 / 10_000.0;
        let sibling = if y < self.cfg.p_equivocate {
            let extra = ident::bytes_digest(&self.r.next().to_le_bytes());
            Some(self.mk_block(leader, r, b.qc.clone(), b.tc.clone(), vec![extra]))
        } else {
            None
        };
        let parent_ok = self.node_stored(&tip_d) && self.known.get(&tip_d).map_or(true, |p| self.node_stored(&p.qc.hash));
        let votable = r > self.blocked_round && payload.is_empty() && parent_ok && r >= self.round_upper.max(self.round_seen) && b.tc.as_ref().map_or(true, |t| b.qc.round >= t.votes.iter().map(|v| v.2).max().unwrap_or(0));
        if let Some(s) = &sibling {
            if self.r.chance(0.5) {
                // The sibling (payload the node lacks) first: it is parked, never voted.
                self.deliver_valid_block(leader, s);
                self.probe("puppet.equivocation");
            }
        }
        self.deliver_valid_block(leader, &b);
        self.probe("puppet.valid-proposal");
        if let Some(s) = &sibling {
            if !self.valid_delivered.contains(&ident::block_digest(s)) {
                self.deliver_valid_block(leader, s);
                self.probe("puppet.equivocation");
            }
        }
        // The node is in round r after this block at the latest.
        if votable {
            let next_leader = self.members.leader_index(r + 1);
            if next_leader != self.real && !self.model_uncertain {
                self.expect_vote = Some((r, d.clone()));
            }
            self.blocked_round = self.blocked_round.max(r);
        } else if r > self.blocked_round && parent_ok && payload.is_empty() {
            self.blocked_round = self.blocked_round.max(r);
        }
        // Certify it (the puppets hold a quorum) unless the payload is to stay missing.
        if payload.iter().all(|p| !self.withheld_batches.contains(p)) {
            let signers = self.quorum_of_puppets();
            let qc = self.mk_qc(&d, r, &signers);
            self.qc_for.insert(d.clone(), qc);
            let next_leader = self.members.leader_index(r + 1);
            if next_leader == self.real && payload.is_empty() {
                // The node collects the votes for this block: trickle them in, one per step.
                let mut order = self.puppets();
                self.r.shuffle(&mut order);
                self.trickle_votes = Some((r, d.clone(), order, 0));
                self.own_vote_counted = votable;
            }
            self.tip = (d, r);
        }
    }

    fn trickle_vote_step(&mut self) {
        let (r, d, mut order, mut sent_stake) = self.trickle_votes.take().unwrap();
        let p = match order.pop() {
            Some(p) => p,
            None => return,
        };
        // Occasionally a duplicate of an earlier vote or a conflicting vote of the same author.
        let v = self.mk_vote(p, &d, r);
        if self.r.chance(self.cfg.p_duplicate) {
            self.send_cons(p, &ConsensusMessage::Vote(v.clone()));
            self.probe("puppet.duplicate-vote");
        }
        if self.r.chance(self.cfg.p_equivocate) {
            let other = ident::bytes_digest(&self.r.next().to_le_bytes());
            let v2 = self.mk_vote(p, &other, r);
            self.send_cons(p, &ConsensusMessage::Vote(v2));
            self.probe("puppet.conflicting-vote");
        }
        self.send_cons(p, &ConsensusMessage::Vote(v));
        self.probe("puppet.vote-to-node");
        let before = sent_stake;
        sent_stake += self.members.stakes[p] as u64;
        // Quorum from the puppets' votes (plus the node's own vote if it cast one).
        let own = if self.own_vote_counted { self.members.stakes[self.real] as u64 } else { 0 };
        let q = self.members.quorum();
        if sent_stake + self.members.stakes[self.real] as u64 >= q {
            self.note_valid_cert_delivered(r);
        }
        if before + own < q && sent_stake + own >= q && !self.mute_ack && !self.model_uncertain {
            // C19 exactly-when: the QC exists now, so the node (leader of r + 1) proposes now.
            self.expect_cert = Some(("proposal", r + 1));
        }
        if !order.is_empty() {
            self.trickle_votes = Some((r, d, order, sent_stake));
        }
    }

    fn timeout_episode(&mut self, r: Round) {
        let x = self.r.below(3);
        match x {
            0 => {
                // The harness assembles the TC itself and sends it.
                let signers = self.quorum_of_puppets();
                let highs: Vec<Round> = signers.iter().map(|_| self.r.range(0, self.tip.1)).collect();
                let tc = self.mk_tc(r, &signers, &highs);
                let from = signers[0];
                self.note_valid_cert_delivered(r);
                self.send_cons(from, &ConsensusMessage::TC(tc.clone()));
                self.pending_tc_for_next = Some(tc);
                self.probe("puppet.tc-sent");
                self.blocked_round = self.blocked_round.max(0);
            }
            1 => {
                // Let the node's own timer expire first, then trickle the puppets' timeouts.
                let mut order = self.puppets();
                self.r.shuffle(&mut order);
                self.trickle_timeouts = Some((r, order, 0, true));
            }
            _ => {
                let mut order = self.puppets();
                self.r.shuffle(&mut order);
                self.trickle_timeouts = Some((r, order, 0, false));
            }
        }
    }

    fn trickle_timeout_step(&mut self) {
        let (r, mut order, mut stake, wait_timer) = self.trickle_timeouts.take().unwrap();
        if wait_timer {
            // Handled by `settle_extra` in run(): this step only waits for the node's timer.
            self.trickle_timeouts = Some((r, order, stake, false));
            self.probe("puppet.wait-for-timer");
            return;
        }
        let p = match order.pop() {
            Some(p) => p,
            None => return,
        };
        // A puppet that already sent its timeout with the genesis QC sends it again, now reporting a
        // higher QC (what a node does when its timer fires again after it learnt a newer QC). It
        // must not be counted a second time.
        if !self.sent_low_timeouts.is_empty() && self.tip.1 > 0 && self.tip.1 < r && self.r.chance(0.3) {
            let k = self.r.below(self.sent_low_timeouts.len());
            let q = self.sent_low_timeouts.remove(k);
            let t2 = self.mk_timeout(q, r, self.tip_qc());
            self.note_valid_cert_delivered(self.tip.1);
            self.send_cons(q, &ConsensusMessage::Timeout(t2));
            self.probe("puppet.timeout-resent-with-higher-qc");
        }
        let high = if self.r.chance(0.5) && self.tip.1 < r { self.tip_qc() } else { QC::genesis() };
        if ident::is_genesis_qc(&high) {
            self.sent_low_timeouts.push(p);
        }
        if !ident::is_genesis_qc(&high) {
            self.note_valid_cert_delivered(high.round);
        }
        let t = self.mk_timeout(p, r, high);
        if self.r.chance(self.cfg.p_duplicate) {
            self.send_cons(p, &ConsensusMessage::Timeout(t.clone()));
            self.probe("puppet.duplicate-timeout");
        }
        self.send_cons(p, &ConsensusMessage::Timeout(t));
        self.probe("puppet.timeout-to-node");
        let before = stake;
        stake += self.members.stakes[p] as u64;
        let own_possible = self.members.stakes[self.real] as u64;
        if stake + own_possible >= self.members.quorum() {
            self.note_valid_cert_delivered(r);
        }
        let own = if self.node_timeouts.contains_key(&r) { own_possible } else { 0 };
        let q = self.members.quorum();
        if before + own < q && stake + own >= q && self.round_seen <= r && self.round_upper <= r + 1 && !self.model_uncertain {
            // C19 exactly-when: the node assembles and broadcasts the TC of round r now.
            self.expect_cert = Some(("tc", r));
        }
        if !order.is_empty() {
            self.trickle_timeouts = Some((r, order, stake, false));
        } else {
            self.sent_low_timeouts.clear();
        }
    }

    /// A valid but old proposal (an ancestor's sibling): must not be voted, may be stored.
    fn stale_proposal(&mut self) {
        let r = self.r.range(1, self.tip.1.saturating_sub(1).max(1));
        let leader = self.members.leader_index(r);
        if leader == self.real {
            return;
        }
        // Extend some known certified block of a lower round.
        let cands: Vec<(Digest, Round)> = self.qc_for.iter().filter(|(_, q)| q.round < r).map(|(d, q)| (d.clone(), q.round)).collect();
        let (pd, pr) = if cands.is_empty() { (Digest::default(), 0) } else { cands[self.r.below(cands.len())].clone() };
        let qc = if pr == 0 { QC::genesis() } else { self.qc_for[&pd].clone() };
        let tc = if pr + 1 != r {
            let signers = self.quorum_of_puppets();
            let highs: Vec<Round> = signers.iter().map(|_| self.r.range(0, pr)).collect();
            Some(self.mk_tc(r - 1, &signers, &highs))
        } else {
            None
        };
        let extra = ident::bytes_digest(&self.r.next().to_le_bytes());
        let pl = if self.r.chance(0.5) { vec![] } else { vec![extra] };
        let b = self.mk_block(leader, r, qc, tc, pl);
        self.deliver_valid_block(leader, &b);
        self.probe("puppet.stale-proposal");
    }

    /// A proposal for the node's round by the round's (puppet) leader whose signature and
    /// certificates are all valid but which the voting rules forbid: the node must not vote.
    fn unsafe_proposal(&mut self) {
        let r = self.round_upper.max(self.node_round_estimate()).max(self.tip.1 + 1);
        let leader = self.members.leader_index(r);
        if leader == self.real || r < 4 {
            return;
        }
        // An older certified block (two or more rounds below r) to extend.
        let mut cands: Vec<(Digest, Round)> = self.qc_for.iter().filter(|(_, q)| q.round + 2 <= r).map(|(d, q)| (d.clone(), q.round)).collect();
        cands.sort();
        if cands.is_empty() {
            return;
        }
        let (pd, pr) = cands[self.r.below(cands.len())].clone();
        let qc = self.qc_for[&pd].clone();
        let signers = self.quorum_of_puppets();
        let kind = self.r.below(4);
        let (tc, what) = match kind {
            0 => (None, "round gap between the block and its QC, no TC"),
            1 => {
                // TC of the preceding round, but a signer reports a higher QC than the block's.
                let mut highs: Vec<Round> = signers.iter().map(|_| self.r.range(0, pr)).collect();
                highs[0] = pr + 1;
                (Some(self.mk_tc(r - 1, &signers, &highs)), "TC of the preceding round reporting a QC round above the block's QC")
            }
            2 => {
                // Stale TC (not of the preceding round) that would otherwise satisfy the high-QC rule.
                let t = self.r.range(pr.max(1), r - 2);
                let highs: Vec<Round> = signers.iter().map(|_| self.r.range(0, pr)).collect();
                (Some(self.mk_tc(t, &signers, &highs)), "stale TC (not of the preceding round)")
            }
            _ => {
                // TC of the preceding round with all reported QC rounds above the block's QC.
                let highs: Vec<Round> = signers.iter().map(|_| pr + 1 + self.r.range(0, 2)).collect();
                (Some(self.mk_tc(r - 1, &signers, &highs)), "TC of the preceding round, every reported QC round above the block's QC")
            }
        };
        let pl = vec![];
        let b = self.mk_block(leader, r, qc, tc, pl);
        if ident::check_block(&b, &self.members).is_err() {
            return;
        }
        // Its certificates are valid, so they may move the node forward.
        self.deliver_valid_block(leader, &b);
        self.probe("puppet.unsafe-proposal");
        let _ = what;
    }

    /// Ask the node's helper for a block it stored: the reply must be that very block.
    fn sync_probe_step(&mut self) {
        let stored: Vec<Digest> = self.known.keys().filter(|d| self.node_stored(d)).cloned().collect();
        if stored.is_empty() {
            return;
        }
        let mut stored = stored;
        stored.sort();
        let d = stored[self.r.below(stored.len())].clone();
        let ps = self.puppets();
        let p = ps[self.r.below(ps.len())];
        self.sync_probe = Some((d.clone(), p));
        let m = ConsensusMessage::SyncRequest(d, self.names[p]);
        let bytes = bincode::serialize(&m).unwrap();
        self.send_raw(p, SVC_CONSENSUS, &bytes);
        self.probe("puppet.sync-probe");
    }

    // ---- invalid variants (C04 / C20) ------------------------------------------------------

    fn flip_sig(&mut self, s: &Signature) -> Signature {
        let mut b = ident::sig_bytes(s);
        let bit = self.r.below(512);
        b[bit / 8] ^= 1 << (bit % 8);
        ident::sig_from_bytes(&b)
    }

    /// A batch the node does not have but can obtain: the harness answers the node's batch
    /// request for it. Used as payload of INVALID proposals: a node that looks at the payload
    /// before it has verified the proposal parks the block, fetches the batch and then resumes
    /// the unverified block.
    fn requestable_batch(&mut self) -> Digest {
        let tx = Cluster::tx_bytes(40, 7, self.r.next());
        let bytes = bincode::serialize(&MempoolMessage::Batch(vec![tx])).unwrap();
        let d = ident::bytes_digest(&bytes);
        self.batches.insert(d.clone(), bytes);
        self.probe("puppet.invalid-with-requestable-batch");
        d
    }

    fn junk_or_requestable(&mut self) -> Vec<Digest> {
        if self.r.chance(0.5) {
            vec![self.requestable_batch()]
        } else {
            vec![ident::bytes_digest(&self.r.next().to_le_bytes())]
        }
    }

    fn inject_invalid(&mut self) {
        let r = self.round_upper.max(self.node_round_estimate());
        let kinds: Vec<u32> = if self.cfg.only_mutations.is_empty() { (0..36).collect() } else { self.cfg.only_mutations.clone() };
        let kind = kinds[self.r.below(kinds.len())];
        let leader = self.members.leader_index(r);
        let ps = self.puppets();
        let some_puppet = ps[self.r.below(ps.len())];
        let author = if leader == self.real { some_puppet } else { leader };
        let (tip_d, tip_r) = self.tip.clone();
        let qc = self.tip_qc();
        let base_tc = if tip_r + 1 != r && r > 1 {
            let signers = self.quorum_of_puppets();
            let highs: Vec<Round> = signers.iter().map(|_| 0).collect();
            Some(self.mk_tc(r - 1, &signers, &highs))
        } else {
            None
        };
        let pl0 = if self.r.chance(0.3) { vec![self.requestable_batch()] } else { vec![] };
        let valid = self.mk_block(author, r, qc.clone(), base_tc.clone(), pl0);
        let mut what = String::new();
        let mut bad_block: Option<Block> = None;
        let mut bad_other: Option<(usize, ConsensusMessage)> = None;
        match kind {
            0 => {
                let mut b = valid.clone();
                b.signature = self.flip_sig(&valid.signature);
                what = "block signature with one bit flipped".into();
                bad_block = Some(b);
            }
            1 => {
                let mut b = valid.clone();
                b.round = r + 1;
                what = "block round altered, signature kept".into();
                bad_block = Some(b);
            }
            2 => {
                let mut b = valid.clone();
                b.payload.push(ident::bytes_digest(b"extra"));
                what = "block payload altered, signature kept".into();
                bad_block = Some(b);
            }
            3 => {
                // Parent altered: another certified block's QC, signature kept.
                let other: Option<QC> = self.qc_for.iter().filter(|(d, _)| **d != tip_d).map(|(_, q)| q.clone()).next();
                if let Some(q) = other {
                    let mut b = valid.clone();
                    b.qc = q;
                    what = "block parent (QC) replaced, signature kept".into();
                    bad_block = Some(b);
                }
            }
            4 => {
                // Author altered to another member, signature kept.
                let mut b = valid.clone();
                b.author = self.names[ps[(ps.iter().position(|x| *x == author).unwrap_or(0) + 1) % ps.len()]];
                what = "block author altered, signature kept".into();
                bad_block = Some(b);
            }
            5 => {
                // Correctly signed by a member that does not lead the round.
                let wrong = ps.iter().cloned().find(|p| *p != self.members.leader_index(r));
                if let Some(w) = wrong {
                    what = "block correctly signed by a non-leader".into();
                    bad_block = Some(self.mk_block(w, r, qc.clone(), base_tc.clone(), vec![]));
                }
            }
            6 => {
                // Correctly signed by a non-member.
                let (pk, sk) = keypair(self.c.sc.seed, 500 + self.step);
                let mut b = Block { qc: qc.clone(), tc: base_tc.clone(), author: pk, round: r, payload: vec![], signature: Signature::default() };
                b.signature = sign(&ident::block_digest(&b), &sk);
                what = "block signed by a non-member".into();
                bad_block = Some(b);
            }
            7 | 8 | 9 | 10 | 11 if !ident::is_genesis_qc(&qc) => {
                // Invalid QC inside an otherwise well-signed block (for the node's round + k so
                // that accepting it would advance the node).
                let mut q = qc.clone();
                match kind {
                    7 => {
                        let k = self.r.below(q.votes.len());
                        q.votes[k].1 = self.flip_sig(&qc.votes[k].1);
                        what = "QC with one signature bit flipped".into();
                    }
                    8 => {
                        if q.votes.len() >= 2 {
                            q.votes[1] = q.votes[0].clone();
                        }
                        what = "QC with a repeated signer".into();
                    }
                    9 => {
                        let q_needed = self.members.quorum();
                        while q.votes.iter().map(|(k, _)| self.members.stake(k)).sum::<u64>() >= q_needed {
                            q.votes.pop();
                        }
                        what = "QC one signer below the quorum".into();
                    }
                    10 => {
                        let (pk, sk) = keypair(self.c.sc.seed, 600 + self.step);
                        q.votes[0] = (pk, sign(&ident::vote_digest(&q.hash, q.round), &sk));
                        what = "QC with a non-member signer".into();
                    }
                    _ => {
                        // Signatures made for another round presented for this one.
                        let signers = self.quorum_of_puppets();
                        let wrong = self.mk_qc(&q.hash, q.round + 7, &signers);
                        q.votes = wrong.votes;
                        what = "QC whose signatures are over another round".into();
                    }
                }
                // Either the same (hash, round) as the valid QC with bad votes, or a QC for an
                // unknown block of a future round (accepting it would advance the node).
                if self.r.chance(0.5) && kind != 11 {
                    let fr = r + 3;
                    let fh = ident::bytes_digest(&self.r.next().to_le_bytes());
                    let signers = self.quorum_of_puppets();
                    let mut fq = self.mk_qc(&fh, fr, &signers);
                    match kind {
                        7 => fq.votes[0].1 = self.flip_sig(&fq.votes[0].1.clone()),
                        8 => {
                            if fq.votes.len() >= 2 {
                                fq.votes[1] = fq.votes[0].clone();
                            }
                        }
                        9 => {
                            let q_needed = self.members.quorum();
                            while fq.votes.iter().map(|(k, _)| self.members.stake(k)).sum::<u64>() >= q_needed {
                                fq.votes.pop();
                            }
                        }
                        _ => {
                            let (pk, sk) = keypair(self.c.sc.seed, 700 + self.step);
                            fq.votes[0] = (pk, sign(&ident::vote_digest(&fh, fr), &sk));
                        }
                    }
                    let fl = self.members.leader_index(fr + 1);
                    let fa = if fl == self.real { some_puppet } else { fl };
                    what.push_str(" (for a future round)");
                    bad_block = Some(self.mk_block(fa, fr + 1, fq, None, vec![]));
                } else {
                    let pl = self.junk_or_requestable();
                    let b = self.mk_block(author, r, q, base_tc.clone(), pl);
                    bad_block = Some(b);
                }
            }
            12 | 13 | 14 | 15 => {
                // Invalid TC message for a future round: accepting it would advance the node.
                let target = r + 2;
                let signers = self.quorum_of_puppets();
                let highs: Vec<Round> = signers.iter().map(|_| 0).collect();
                let mut tc = self.mk_tc(target, &signers, &highs);
                match kind {
                    12 => {
                        tc.votes[0].1 = self.flip_sig(&tc.votes[0].1.clone());
                        what = "TC with one signature bit flipped".into();
                    }
                    13 => {
                        if tc.votes.len() >= 2 {
                            tc.votes[1] = tc.votes[0].clone();
                        }
                        what = "TC with a repeated signer".into();
                    }
                    14 => {
                        let q_needed = self.members.quorum();
                        while tc.votes.iter().map(|(k, _, _)| self.members.stake(k)).sum::<u64>() >= q_needed {
                            tc.votes.pop();
                        }
                        what = "TC one signer below the quorum".into();
                    }
                    _ => {
                        tc.votes[0].2 += 1;
                        what = "TC with an altered high-QC round entry".into();
                    }
                }
                bad_other = Some((signers[0], ConsensusMessage::TC(tc)));
            }
            16 | 17 | 18 => {
                // Invalid timeouts for a future round from a quorum of puppets: accepting them
                // would let the node assemble a TC.
                let target = r + 3;
                let signers = self.quorum_of_puppets();
                for p in signers {
                    let mut t = self.mk_timeout(p, target, QC::genesis());
                    match kind {
                        16 => {
                            t.signature = self.flip_sig(&t.signature.clone());
                            what = "timeouts with a flipped signature bit".into();
                        }
                        17 => {
                            t.round = target + 1;
                            what = "timeouts with the round altered, signature kept".into();
                        }
                        _ => {
                            // Vote signature transplanted onto a timeout.
                            t.signature = self.mk_vote(p, &tip_d, target).signature;
                            what = "timeouts carrying a signature made for a vote".into();
                        }
                    }
                    self.send_cons(p, &ConsensusMessage::Timeout(t));
                }
                self.probe("puppet.invalid-injected");
                self.invalid_since_last_vote += 1;
                self.probe(&format!("puppet.invalid.kind{}", kind));
                let _ = what;
                return;
            }
            19 | 20 | 21 if self.trickle_votes.is_none() => {
                // Invalid votes for a block of the node's round sent to the node (it aggregates
                // votes when it is the next leader; otherwise they must be harmless).
                let target_hash = tip_d.clone();
                for p in self.quorum_of_puppets() {
                    let mut v = self.mk_vote(p, &target_hash, r + 4);
                    match kind {
                        19 => {
                            v.signature = self.flip_sig(&v.signature.clone());
                            what = "votes with a flipped signature bit".into();
                        }
                        20 => {
                            v.round = r + 5;
                            what = "votes with the round altered, signature kept".into();
                        }
                        _ => {
                            v.signature = self.mk_timeout(p, r + 4, QC::genesis()).signature;
                            what = "votes carrying a signature made for a timeout".into();
                        }
                    }
                    self.send_cons(p, &ConsensusMessage::Vote(v));
                }
                self.probe("puppet.invalid-injected");
                self.invalid_since_last_vote += 1;
                self.probe(&format!("puppet.invalid.kind{}", kind));
                let _ = what;
                return;
            }
            22 => {
                // Timeout with a valid outer signature but an invalid embedded QC of a high round.
                let signers = self.quorum_of_puppets();
                let mut q = self.mk_qc(&ident::bytes_digest(b"nothing"), r + 6, &signers);
                q.votes[0].1 = self.flip_sig(&q.votes[0].1.clone());
                let t = self.mk_timeout(some_puppet, r, q);
                what = "timeout carrying an invalid high QC".into();
                bad_other = Some((some_puppet, ConsensusMessage::Timeout(t)));
            }
            23 => {
                // Block signature transplanted from another block of the same author.
                let other = self.mk_block(author, r, qc.clone(), base_tc.clone(), vec![ident::bytes_digest(b"other")]);
                let mut b = valid.clone();
                b.signature = other.signature;
                what = "block signature transplanted from another block".into();
                bad_block = Some(b);
            }
            24 => {
                // Payload / parent boundary shift: payload = [x], parent = y  vs  payload = [x, y'].
                let mut b = valid.clone();
                b.payload = vec![b.qc.hash.clone()];
                what = "block with the parent digest moved into the payload, signature kept".into();
                bad_block = Some(b);
            }
            25 => {
                // Vote signature presented as block signature.
                let mut b = valid.clone();
                b.signature = self.mk_vote(author, &ident::block_digest(&valid), r).signature;
                what = "block carrying a signature made for a vote".into();
                bad_block = Some(b);
            }
            26 => {
                // TC inside a block is invalid while everything else is fine.
                if r > 1 {
                    let signers = self.quorum_of_puppets();
                    let highs: Vec<Round> = signers.iter().map(|_| 0).collect();
                    let mut tc = self.mk_tc(r - 1, &signers, &highs);
                    tc.votes[0].1 = self.flip_sig(&tc.votes[0].1.clone());
                    let pl = self.junk_or_requestable();
                    let b = self.mk_block(author, r, QC::genesis(), Some(tc), pl);
                    what = "block whose TC has a flipped signature bit".into();
                    bad_block = Some(b);
                }
            }
            31 | 32 => {
                // Degenerate certificates: a "QC" of round 0 that names a real block (not the
                // genesis QC, no votes), or a QC with the all-zero hash and a non-zero round.
                let signers = self.quorum_of_puppets();
                let highs: Vec<Round> = signers.iter().map(|_| 0).collect();
                let tc = if r > 1 { Some(self.mk_tc(r - 1, &signers, &highs)) } else { None };
                let q = if kind == 31 {
                    what = "block whose QC has round 0 but names a real block and carries no votes".into();
                    QC { hash: tip_d.clone(), round: 0, votes: vec![] }
                } else {
                    what = "block whose QC has the all-zero hash, a non-zero round and no votes".into();
                    QC { hash: Digest::default(), round: r.saturating_sub(1).max(1), votes: vec![] }
                };
                if tip_d != Digest::default() || kind == 32 {
                    let pl = if self.r.chance(0.5) { vec![self.requestable_batch()] } else { vec![] };
                    bad_block = Some(self.mk_block(author, r, q, tc, pl));
                }
            }
            33 | 34 | 35 => {
                // Padded certificates: a genuine quorum of entries FOLLOWED by one more entry that
                // is invalid (non-member, repeated signer, or a member's name over a garbage
                // signature). A verifier that stops looking once the quorum is reached lets the
                // padding through, and the padding is not inert: a TC's high-QC rounds are read
                // from every entry, and the certificate is stored, relayed and re-proposed.
                let signers = self.quorum_of_puppets();
                let flavour = self.r.below(3);
                let (opk, osk) = keypair(self.c.sc.seed, 800 + self.step);
                let fl_txt = ["a trailing non-member entry", "a trailing repeated signer", "a trailing entry naming a member over a garbage signature"][flavour];
                if kind == 33 {
                    let fr = r + 3;
                    let fh = ident::bytes_digest(&self.r.next().to_le_bytes());
                    let mut fq = self.mk_qc(&fh, fr, &signers);
                    let extra = match flavour {
                        0 => (opk, sign(&ident::vote_digest(&fh, fr), &osk)),
                        1 => fq.votes[0].clone(),
                        _ => (self.members.names[self.real], sign(&ident::vote_digest(&fh, fr), &osk)),
                    };
                    fq.votes.push(extra);
                    let fl = self.members.leader_index(fr + 1);
                    let fa = if fl == self.real { some_puppet } else { fl };
                    what = format!("block whose QC (future round) has a genuine quorum plus {}", fl_txt);
                    bad_block = Some(self.mk_block(fa, fr + 1, fq, None, vec![]));
                } else {
                    let target = if kind == 34 { r + 2 } else { r.max(2) - 1 };
                    let highs: Vec<Round> = signers.iter().map(|_| 0).collect();
                    let mut tc = self.mk_tc(target, &signers, &highs);
                    let inflated: Round = target + 1000;
                    let extra = match flavour {
                        0 => (opk, sign(&ident::timeout_digest(target, inflated), &osk), inflated),
                        1 => {
                            let first = signers[0];
                            let t = self.mk_timeout(first, target, QC::genesis());
                            (t.author, t.signature, 0)
                        }
                        _ => (self.members.names[self.real], sign(&ident::timeout_digest(target, inflated), &osk), inflated),
                    };
                    tc.votes.push(extra);
                    if kind == 34 {
                        what = format!("TC (future round) with a genuine quorum plus {}", fl_txt);
                        bad_other = Some((signers[0], ConsensusMessage::TC(tc)));
                    } else if r > 1 {
                        what = format!("block whose TC has a genuine quorum plus {}", fl_txt);
                        let pl = self.junk_or_requestable();
                        bad_block = Some(self.mk_block(author, r, QC::genesis(), Some(tc), pl));
                    }
                }
            }
            28 | 29 | 30 => {
                // An otherwise perfectly valid proposal of the normal shape (QC of the preceding
                // round) with a superfluous INVALID TC attached; the TC is not covered by the
                // block's signature, so anybody can attach one. Accepting it would move the node
                // to the TC's round.
                if tip_r + 1 == r && r > 1 && leader != self.real {
                    let signers = self.quorum_of_puppets();
                    let highs: Vec<Round> = signers.iter().map(|_| 0).collect();
                    let far = r + 4 + self.r.range(0, 40);
                    let mut tc = self.mk_tc(far, &signers, &highs);
                    match kind {
                        28 => {
                            tc.votes[0].1 = self.flip_sig(&tc.votes[0].1.clone());
                            what = "valid proposal carrying a superfluous TC with a flipped signature bit".into();
                        }
                        29 => {
                            tc.votes.truncate(1);
                            what = "valid proposal carrying a superfluous TC far below the quorum".into();
                        }
                        _ => {
                            tc.votes.clear();
                            what = "valid proposal carrying a superfluous TC without any vote".into();
                        }
                    }
                    let mut b = valid.clone();
                    b.tc = Some(tc);
                    bad_block = Some(b);
                }
            }
            _ => {
                // Swapped field values: round and QC round exchanged where they differ.
                let mut b = valid.clone();
                b.round = b.qc.round;
                what = "block round replaced by its QC's round, signature kept".into();
                bad_block = Some(b);
            }
        }
        if let Some(b) = bad_block {
            let d = ident::block_digest(&b);
            // Sanity: the independent checker must reject the variant, otherwise it is not a
            // test of rejection (e.g. a mutation that happens to leave the block valid).
            if ident::check_block(&b, &self.members).is_ok() {
                self.probe("puppet.mutation-still-valid");
                return;
            }
            if !self.valid_delivered.contains(&d) {
                self.invalid_only.insert(d, what.clone());
            }
            let from = self.members.index(&b.author).filter(|a| *a != self.real).unwrap_or(some_puppet);
            let bytes = bincode::serialize(&ConsensusMessage::Propose(b)).unwrap();
            self.send_raw(from, SVC_CONSENSUS, &bytes);
            self.probe("puppet.invalid-injected");
            self.probe(&format!("puppet.invalid.kind{}", kind));
            self.invalid_since_last_vote += 1;
        } else if let Some((from, m)) = bad_other {
            let bytes = bincode::serialize(&m).unwrap();
            self.send_raw(from, SVC_CONSENSUS, &bytes);
            self.probe("puppet.invalid-injected");
            self.probe(&format!("puppet.invalid.kind{}", kind));
            self.invalid_since_last_vote += 1;
        }
    }

    // ---- reactions to what the node does -----------------------------------------------------

    fn on_tap(&mut self, ev: &TapEvent) {
        let (phase, fidx, data) = match &ev.kind {
            TapKind::Frame { phase, fidx, data } => (*phase, *fidx, data.clone()),
            _ => return,
        };
        let _ = fidx;
        if ev.src() != self.real || !ev.to_listener {
            return;
        }
        match (ev.svc, phase) {
            (SVC_CONSENSUS, Phase::Written) => {
                if let Some(m) = crate::obs::safe_deserialize::<ConsensusMessage>(&data) {
                    self.node_emitted(&m);
                }
            }
            (SVC_CONSENSUS, Phase::Delivered) => {
                if let Some(m) = crate::obs::safe_deserialize::<ConsensusMessage>(&data) {
                    match m {
                        ConsensusMessage::Propose(_) => {
                            if !self.mute_ack {
                                let _ = self.c.net.h_send_frame(ev.conn, false, b"Ack");
                            }
                        }
                        ConsensusMessage::SyncRequest(d, _) => {
                            // The node asks puppet ev.dst() for a block.
                            let now = self.c.net.now_us();
                            let mut retried = false;
                            if let Some(st) = self.starve.as_mut() {
                                if st.parent == d {
                                    match st.first_req {
                                        None => st.first_req = Some((now, ev.dst())),
                                        Some((_, first)) if first != ev.dst() => retried = true,
                                        _ => {}
                                    }
                                }
                            }
                            if retried {
                                // The retry reached another peer: serve it now.
                                self.withheld.remove(&d);
                                self.probe("puppet.starve-retry-seen");
                            }
                            if self.withheld.contains(&d) {
                                self.probe("puppet.sync-request-ignored");
                            } else if let Some(b) = self.known.get(&d).cloned() {
                                let p = ev.dst();
                                // A valid variant is now on its way: the digest is no longer
                                // "invalid only".
                                self.valid_delivered.insert(d.clone());
                                self.invalid_only.remove(&d);
                                self.send_cons(p, &ConsensusMessage::Propose(b));
                                self.probe("puppet.sync-request-served");
                            }
                        }
                        _ => {}
                    }
                }
            }
            (SVC_MEMPOOL, Phase::Delivered) => {
                let _ = self.c.net.h_send_frame(ev.conn, false, b"Ack");
                if let Some(MempoolMessage::BatchRequest(ds, _)) = crate::obs::safe_deserialize::<MempoolMessage>(&data) {
                    for d in ds {
                        if self.withheld_batches.contains(&d) {
                            continue;
                        }
                        if let Some(bytes) = self.batches.get(&d).cloned() {
                            let p = ev.dst();
                            self.send_raw(p, SVC_MEMPOOL, &bytes);
                            self.probe("puppet.batch-request-served");
                        }
                    }
                }
            }
            _ => {}
        }
    }

    fn node_emitted(&mut self, m: &ConsensusMessage) {
        match m {
            ConsensusMessage::Vote(v) => {
                self.round_seen = self.round_seen.max(v.round);
                self.blocked_round = self.blocked_round.max(v.round);
                self.node_votes.insert((v.round, v.hash.clone()), v.signature.clone());
                self.invalid_since_last_vote = 0;
                if let Some((r, d)) = &self.expect_vote {
                    if *r == v.round && *d == v.hash {
                        self.expect_vote = None;
                        self.probe("puppet.vote-as-expected");
                    }
                }
                // C04: a vote for a block of which only invalid variants were delivered.
                if let Some(why) = self.invalid_only.get(&v.hash).cloned() {
                    self.violate("C04", "voted-for-invalid-block", format!("the node voted in round {} for {} of which it had only been sent an invalid variant ({})", v.round, ident::short(&v.hash), why));
                }
            }
            ConsensusMessage::Timeout(t) => {
                self.round_seen = self.round_seen.max(t.round);
                self.blocked_round = self.blocked_round.max(t.round);
                self.node_timeouts.insert(t.round, (t.high_qc.clone(), t.signature.clone()));
                if let Some((r, _)) = &self.expect_vote {
                    if *r <= t.round {
                        self.expect_vote = None;
                    }
                }
            }
            ConsensusMessage::Propose(b) if self.sync_probe.as_ref().map_or(false, |(w, _)| *w == ident::block_digest(b)) && self.known.get(&ident::block_digest(b)).map_or(false, |k| k.round + 1 < self.round_seen || b.author != self.names[self.real]) => {
                let (want, _) = self.sync_probe.take().unwrap();
                let same = self.variants.get(&want).map_or(false, |v| v.contains(&ident::content_id(b)));
                if !same {
                    self.violate("C20", "sync-reply-not-the-stored-block", format!("the node's helper answered a sync request for {} with a block of different content", ident::short(&want)));
                } else {
                    self.probe("puppet.sync-probe-answered");
                }
            }
            ConsensusMessage::Propose(b) => {
                if b.author == self.names[self.real] {
                    if let Some(("proposal", r)) = self.expect_cert {
                        if b.round == r {
                            self.expect_cert = None;
                            self.probe("puppet.qc-formed-at-quorum");
                        }
                    }
                    self.round_seen = self.round_seen.max(b.round);
                    let d = ident::block_digest(b);
                    self.variants.entry(d.clone()).or_default().insert(ident::content_id(b));
                    if !self.known.contains_key(&d) {
                        self.known.insert(d.clone(), b.clone());
                        self.valid_delivered.insert(d);
                        self.probe("puppet.node-proposed");
                    }
                } else if let Some((want, _)) = &self.sync_probe {
                    // Reply to our sync probe: must be exactly the block of that digest.
                    let d = ident::block_digest(b);
                    if d == *want {
                        let same = self.known.get(want).map_or(false, |k| ident::content_id(k) == ident::content_id(b));
                        if !same {
                            self.violate("C20", "sync-reply-not-the-stored-block", format!("the node's helper answered a sync request for {} with a block of different content", ident::short(want)));
                        } else {
                            self.probe("puppet.sync-probe-answered");
                        }
                        self.sync_probe = None;
                    } else {
                        self.violate("C07", "sync-reply-wrong-digest", format!("the node's helper answered a sync request for {} with block {}", ident::short(want), ident::short(&d)));
                    }
                }
            }
            ConsensusMessage::TC(tc) => {
                if let Some(("tc", r)) = self.expect_cert {
                    if tc.round == r {
                        self.expect_cert = None;
                        self.probe("puppet.tc-formed-at-quorum");
                    }
                }
                self.round_seen = self.round_seen.max(tc.round + 1);
                if ident::check_tc(tc, &self.members).is_ok() {
                    self.pending_tc_for_next = Some(tc.clone());
                }
            }
            ConsensusMessage::SyncRequest(..) => {}
        }
    }

    fn end_of_step_checks(&mut self) {
        // C04 (rejection leaves behaviour unchanged): a valid, votable proposal must be voted
        // although invalid messages were injected before it.
        if let Some((r, d)) = self.expect_vote.take() {
            if self.invalid_since_last_vote > 0 {
                self.violate(
                    "C04",
                    "valid-proposal-ignored-after-rejected-messages",
                    format!("after {} rejected messages the node did not vote for the valid proposal {} of its round {}", self.invalid_since_last_vote, ident::short(&d), r),
                );
            } else {
                self.probe("puppet.expected-vote-missing");
            }
        }
        // C19 exactly-when: the certificate must have been assembled within this step.
        if let Some((kind, r)) = self.expect_cert.take() {
            self.violate(
                "C19",
                "certificate-not-assembled-at-quorum",
                format!("a quorum of valid matching {} reached the node in this step but it emitted no {} of round {}", if kind == "tc" { "timeouts" } else { "votes" }, if kind == "tc" { "TC" } else { "proposal carrying the QC" }, r),
            );
        }
        // C04: no invalid-only block may ever be stored or committed.
        let bad: Vec<(Digest, String)> = {
            let o = self.c.obs.lock().unwrap();
            self.invalid_only.iter().filter(|(d, _)| o.nodes[self.real].store.contains_key(&d.0.to_vec())).map(|(d, w)| (d.clone(), w.clone())).collect()
        };
        for (d, why) in bad {
            self.violate("C04", "stored-invalid-block", format!("the node stored block {} of which it had only been sent an invalid variant ({})", ident::short(&d), why));
            self.invalid_only.remove(&d);
        }
    }

    async fn settle(&mut self, dur_us: u64) {
        let until = self.c.net.now_us() + dur_us;
        loop {
            let _ = self.c.net.pump(until).await;
            let tap = self.c.net.drain_tap();
            if !tap.is_empty() {
                {
                    let mut o = self.c.obs.lock().unwrap();
                    for ev in &tap {
                        o.on_tap(ev);
                    }
                }
                for ev in &tap {
                    self.on_tap(ev);
                }
            }
            if self.c.net.now_us() >= until {
                break;
            }
        }
    }

    pub async fn run(mut self) -> RunReport {
        self.c.boot(self.real).await;
        self.settle(20_000).await;
        let timeout_us = self.c.sc.params[self.real].timeout_delay * 1_000;
        for step in 0..self.cfg.steps {
            self.step = step;
            self.c.obs.lock().unwrap().ext.step = step as u64;
            let wait_timer = matches!(self.trickle_timeouts, Some((_, _, _, true)));
            self.act();
            let dur = if wait_timer {
                timeout_us + self.cfg.settle_us
            } else if self.starve.is_some() {
                400_000
            } else {
                self.cfg.settle_us
            };
            self.settle(dur).await;
            self.end_of_step_checks();
        }
        let end = self.c.net.now_us();
        let mut o = self.c.obs.lock().unwrap();
        o.finish(end);
        let (log_hash, events, faults, conns) = self.c.net.stats();
        // C04's "no effect" clause: in a C04 run the model-free effect monitors are C04 oracles
        // too - a node that acts in a round which only rejectable certificates / timeouts
        // justify, or emits a certificate containing an invalid entry, was influenced by a
        // message it had to reject.
        if self.c.sc.profile == "C04" && self.c.obs_invalid_injected(&o) {
            let extra: Vec<crate::obs::Violation> = o
                .violations
                .iter()
                .filter(|v| (v.prop == "C10" && v.rule == "round-without-certificate") || (v.prop == "C19" && (v.rule == "invalid-qc-emitted" || v.rule == "invalid-tc-emitted")))
                .map(|v| crate::obs::Violation { prop: "C04".into(), rule: format!("effect-of-invalid-message.{}", v.rule), detail: format!("after invalid messages had been injected: {}", v.detail), seq: v.seq, t_us: v.t_us, node: v.node })
                .collect();
            for v in extra {
                if !o.violations.iter().any(|x| x.prop == v.prop && x.rule == v.rule) {
                    o.violations.push(v);
                }
            }
        }
        RunReport {
            violations: o.violations.clone(),
            probes: o.probes.clone(),
            faults,
            log_hash,
            sig_hash: o.sig_hash,
            virt_us: end,
            events,
            conns: conns as u64,
            panics: Vec::new(),
            harness_error: None,
            trace_tail: o.recent.iter().cloned().collect(),
        }
    }
}
