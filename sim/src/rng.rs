//! One integer decides everything: SplitMix64 streams and keyed hashes derived from the seed.

pub fn splitmix(x: u64) -> u64 {
    let mut z = x.wrapping_add(0x9E37_79B9_7F4A_7C15);
    z = (z ^ (z >> 30)).wrapping_mul(0xBF58_476D_1CE4_E5B9);
    z = (z ^ (z >> 27)).wrapping_mul(0x94D0_49BB_1331_11EB);
    z ^ (z >> 31)
}

/// Keyed hash of a tuple of integers (order-sensitive).
pub fn mix(parts: &[u64]) -> u64 {
    let mut h = 0x243F_6A88_85A3_08D3u64;
    for p in parts {
        h = splitmix(h ^ splitmix(*p));
    }
    h
}

/// Keyed uniform value in [0, 1).
pub fn unit(parts: &[u64]) -> f64 {
    (mix(parts) >> 11) as f64 / (1u64 << 53) as f64
}

#[derive(Clone, Debug)]
pub struct Rng(pub u64);

impl Rng {
    pub fn new(seed: u64) -> Self {
        Rng(splitmix(seed ^ 0xA5A5_5A5A_1234_5678))
    }
    pub fn fork(&mut self, tag: u64) -> Rng {
        Rng(mix(&[self.next(), tag]))
    }
    pub fn next(&mut self) -> u64 {
        self.0 = self.0.wrapping_add(0x9E37_79B9_7F4A_7C15);
        splitmix(self.0)
    }
    /// Uniform in [lo, hi] (inclusive).
    pub fn range(&mut self, lo: u64, hi: u64) -> u64 {
        if hi <= lo {
            return lo;
        }
        lo + self.next() % (hi - lo + 1)
    }
    pub fn below(&mut self, n: usize) -> usize {
        if n == 0 {
            0
        } else {
            (self.next() % n as u64) as usize
        }
    }
    pub fn chance(&mut self, p: f64) -> bool {
        ((self.next() >> 11) as f64 / (1u64 << 53) as f64) < p
    }
    pub fn pick<'a, T>(&mut self, xs: &'a [T]) -> &'a T {
        &xs[self.below(xs.len())]
    }
    pub fn shuffle<T>(&mut self, xs: &mut [T]) {
        for i in (1..xs.len()).rev() {
            let j = self.below(i + 1);
            xs.swap(i, j);
        }
    }
    /// Log-uniform in [lo, hi].
    pub fn log_range(&mut self, lo: u64, hi: u64) -> u64 {
        let (l, h) = ((lo.max(1)) as f64, (hi.max(1)) as f64);
        let u = (self.next() >> 11) as f64 / (1u64 << 53) as f64;
        (l * (h / l).powf(u)).round() as u64
    }
}
