//! World W3 (reliable sender): the real `ReliableSender` against the real `network::Receiver`
//! with a harness handler that replies `ack:<message>`; the connection is broken at exact frames.
use crate::cluster::RunReport;
use crate::net::{addr, Net, Phase, TapKind};
use crate::obs::Violation;
use crate::scenario::Scenario;
use async_trait::async_trait;
use bytes::Bytes;
use futures::sink::SinkExt as _;
use network::{CancelHandler, MessageHandler, Receiver, ReliableSender, Writer};
use serde::{Deserialize, Serialize};
use std::collections::{BTreeMap, HashMap};
use std::error::Error;
use std::sync::{Arc, Mutex};

#[derive(Clone, Debug, Serialize, Deserialize)]
pub enum RsOp {
    Send { id: u32 },
    Cancel { id: u32 },
    Wait { us: u64 },
}

#[derive(Clone, Debug, Serialize, Deserialize)]
pub struct RsCfg {
    pub ops: Vec<RsOp>,
    pub tail_us: u64,
}

#[derive(Clone)]
struct AckHandler {
    net: Net,
    log: Arc<Mutex<Vec<(u64, u64, Vec<u8>)>>>,
}

#[async_trait]
impl MessageHandler for AckHandler {
    async fn dispatch(&self, writer: &mut Writer, message: Bytes) -> Result<(), Box<dyn Error>> {
        let seq = self.net.next_seq();
        let t = self.net.now_us();
        self.log.lock().unwrap().push((seq, t, message.to_vec()));
        let mut reply = b"ack:".to_vec();
        reply.extend_from_slice(&message);
        let _ = writer.send(Bytes::from(reply)).await;
        Ok(())
    }
}

fn msg(id: u32) -> Vec<u8> {
    format!("m{:06}", id).into_bytes()
}

fn parse_id(b: &[u8]) -> Option<u32> {
    std::str::from_utf8(b).ok().and_then(|s| s.strip_prefix('m')).and_then(|s| s.parse().ok())
}

pub async fn run(sc: &Scenario) -> RunReport {
    let cfg: RsCfg = serde_json::from_value(sc.script.clone()).expect("rsender script");
    let net = Net::new(sc.seed, sc.net.clone());
    network::simnet::install(Some(Arc::new(net.clone())));
    let log = Arc::new(Mutex::new(Vec::new()));
    Receiver::spawn(addr(1, 1, 0), AckHandler { net: net.clone(), log: log.clone() });
    let mut sender = ReliableSender::new();
    let target = addr(0, 1, 0);

    let mut violations: Vec<Violation> = Vec::new();
    let mut probes: BTreeMap<String, u64> = BTreeMap::new();
    let mut handles: HashMap<u32, CancelHandler> = HashMap::new();
    let mut handed: Vec<u32> = Vec::new();
    let mut cancelled: HashMap<u32, u64> = HashMap::new();
    let mut resolved: HashMap<u32, (u64, Vec<u8>)> = HashMap::new();
    let mut conn_open_seq: HashMap<usize, u64> = HashMap::new();
    let mut sig: u64 = 0;
    let keep = crate::obs::KEEP_TRACE.load(std::sync::atomic::Ordering::SeqCst);
    let mut trace: Vec<String> = Vec::new();
    let mut viol = |violations: &mut Vec<Violation>, rule: &str, detail: String, seq: u64, t: u64| {
        if !violations.iter().any(|v| v.rule == rule) {
            violations.push(Violation { prop: "C14".into(), rule: rule.into(), detail, seq, t_us: t, node: None });
        }
    };

    // Let the receiver bind.
    let _ = net.pump(1_000).await;

    let mut ops = cfg.ops.clone();
    ops.push(RsOp::Wait { us: cfg.tail_us });
    for op in ops {
        match op {
            RsOp::Send { id } => {
                let h = sender.send(target, Bytes::from(msg(id))).await;
                handles.insert(id, h);
                handed.push(id);
                *probes.entry("rs.sent".into()).or_insert(0) += 1;
            }
            RsOp::Cancel { id } => {
                if let Some(h) = handles.remove(&id) {
                    drop(h);
                    cancelled.insert(id, net.next_seq());
                    *probes.entry("rs.cancelled".into()).or_insert(0) += 1;
                }
            }
            RsOp::Wait { us } => {
                let until = net.now_us() + us;
                loop {
                    let _ = net.pump(until).await;
                    // Observe.
                    for ev in net.drain_tap() {
                        if keep && trace.len() < 400 {
                            let what = match &ev.kind {
                                TapKind::Frame { phase, fidx, data } => format!("{:?} frame{} {} {:?}", phase, fidx, if ev.to_listener { "request" } else { "reply" }, String::from_utf8_lossy(data)),
                                other => format!("{:?}", other),
                            };
                            trace.push(format!("seq={} t={}us connection#{}: {}", ev.seq, ev.t_us, ev.conn_idx, what));
                        }
                        match &ev.kind {
                            TapKind::Open => {
                                conn_open_seq.insert(ev.conn, ev.seq);
                                *probes.entry("rs.connection".into()).or_insert(0) += 1;
                            }
                            TapKind::Reset { .. } => {
                                *probes.entry("rs.reset".into()).or_insert(0) += 1;
                                sig = crate::rng::mix(&[sig, 9, ev.seq]);
                            }
                            TapKind::Frame { phase: Phase::Written, data, .. } if ev.to_listener => {
                                if let Some(id) = parse_id(data) {
                                    sig = crate::rng::mix(&[sig, 1, id as u64, ev.conn_idx as u64]);
                                    // (4) cancellation: not written on a connection opened after the drop.
                                    if let (Some(cs), Some(os)) = (cancelled.get(&id), conn_open_seq.get(&ev.conn)) {
                                        if cs < os {
                                            viol(&mut violations, "cancelled-message-retransmitted", format!("message {} whose handle was dropped at seq {} was written on a connection opened at seq {}", id, cs, os), ev.seq, ev.t_us);
                                        }
                                    }
                                    if ev.conn_idx > 0 {
                                        *probes.entry("rs.retransmission".into()).or_insert(0) += 1;
                                    }
                                }
                            }
                            _ => {}
                        }
                    }
                    let ids: Vec<u32> = handles.keys().cloned().collect();
                    for id in ids {
                        if let Ok(v) = handles.get_mut(&id).unwrap().try_recv() {
                            let seq = net.next_seq();
                            resolved.insert(id, (seq, v.to_vec()));
                            handles.remove(&id);
                            // (3) pairing.
                            let mut want = b"ack:".to_vec();
                            want.extend_from_slice(&msg(id));
                            if v.to_vec() != want {
                                viol(&mut violations, "handle-resolved-with-foreign-reply", format!("the handle of message {} resolved with {:?}", id, String::from_utf8_lossy(&v)), seq, net.now_us());
                            }
                            let delivered = log.lock().unwrap().iter().any(|(_, _, m)| parse_id(m) == Some(id));
                            if !delivered {
                                viol(&mut violations, "acknowledged-before-delivery", format!("the handle of message {} resolved although the peer never received it", id), seq, net.now_us());
                            }
                        }
                    }
                    if net.now_us() >= until {
                        break;
                    }
                }
            }
        }
    }

    // (1) at-least-once for every message whose handle was kept; (2) first deliveries in order.
    let deliveries = log.lock().unwrap().clone();
    let mut first: Vec<(u64, u32)> = Vec::new();
    let mut seen = std::collections::HashSet::new();
    for (seq, _, m) in &deliveries {
        match parse_id(m) {
            Some(id) => {
                if seen.insert(id) {
                    first.push((*seq, id));
                } else {
                    *probes.entry("rs.duplicate-delivery".into()).or_insert(0) += 1;
                }
            }
            None => viol(&mut violations, "garbled-delivery", format!("the peer received {:?}", String::from_utf8_lossy(m)), *seq, 0),
        }
    }
    let order_index: HashMap<u32, usize> = handed.iter().enumerate().map(|(i, id)| (*id, i)).collect();
    for w in first.windows(2) {
        if order_index.get(&w[0].1) > order_index.get(&w[1].1) {
            viol(&mut violations, "first-deliveries-out-of-order", format!("message {} was first delivered before message {} although it was handed over later", w[0].1, w[1].1), w[1].0, 0);
        }
    }
    let end = net.now_us();
    for id in &handed {
        if cancelled.contains_key(id) {
            continue;
        }
        if !seen.contains(id) {
            viol(&mut violations, "kept-message-never-delivered", format!("message {} (handle kept) was not delivered within {} us", id, end), 0, end);
        } else if !resolved.contains_key(id) {
            viol(&mut violations, "kept-handle-never-resolved", format!("message {} was delivered but its handle never resolved within {} us", id, end), 0, end);
        }
    }
    *probes.entry("rs.delivered-distinct".into()).or_insert(0) += seen.len() as u64;
    *probes.entry("rs.resolved".into()).or_insert(0) += resolved.len() as u64;
    let (log_hash, events, faults, conns) = net.stats();
    RunReport { violations, probes, faults, log_hash, sig_hash: crate::rng::mix(&[sig, seen.len() as u64, resolved.len() as u64]), virt_us: end, events, conns: conns as u64, panics: Vec::new(), harness_error: None, trace_tail: trace }
}
