//! Executes one scenario on a fresh OS thread with its own paused, single-threaded tokio
//! runtime, deterministic entropy, simulated network and store tap.
use crate::cluster::{Cluster, RunReport};
use crate::rng::mix;
use crate::scenario::Scenario;
use std::cell::RefCell;
use std::sync::atomic::{AtomicU64, Ordering};

thread_local! {
    static PANICS: RefCell<Vec<String>> = const { RefCell::new(Vec::new()) };
}

pub fn install_panic_hook() {
    std::panic::set_hook(Box::new(|info| {
        let loc = info.location().map(|l| format!("{}:{}", l.file(), l.line())).unwrap_or_default();
        let msg = if let Some(s) = info.payload().downcast_ref::<&str>() {
            s.to_string()
        } else if let Some(s) = info.payload().downcast_ref::<String>() {
            s.clone()
        } else {
            "<non-string panic>".to_string()
        };
        let line = format!("{} :: {}", loc, msg);
        let recorded = PANICS.try_with(|p| p.borrow_mut().push(line.clone())).is_ok();
        if !recorded || std::env::var("HSIM_PANIC_STDERR").is_ok() {
            eprintln!("panic: {}", line);
        }
    }));
}

static RUN_COUNTER: AtomicU64 = AtomicU64::new(0);

pub fn scratch_root() -> String {
    format!("/dev/shm/hsverif-{}", std::process::id())
}

pub fn run_scenario(sc: &Scenario) -> RunReport {
    let sc = sc.clone();
    let k = RUN_COUNTER.fetch_add(1, Ordering::SeqCst);
    let dir = format!("{}/run-{}", scratch_root(), k);
    std::fs::create_dir_all(&dir).expect("create scratch dir");
    let dir2 = dir.clone();
    let handle = std::thread::Builder::new()
        .name(format!("run-{}", k))
        .stack_size(16 << 20)
        .spawn(move || {
            crate::entropy::set_thread_seed(Some(mix(&[sc.seed, 1])));
            PANICS.with(|p| p.borrow_mut().clear());
            let mut seed_bytes = Vec::new();
            seed_bytes.extend_from_slice(&mix(&[sc.seed, 2]).to_le_bytes());
            let rt = tokio::runtime::Builder::new_current_thread()
                .enable_time()
                .start_paused(true)
                .rng_seed(tokio::runtime::RngSeed::from_bytes(&seed_bytes))
                .event_interval(sc.tokio_event_interval.max(1))
                .global_queue_interval(sc.tokio_global_queue_interval.max(1))
                .build()
                .expect("runtime");
            let mut report = rt.block_on(async {
                match sc.world.as_str() {
                    "cluster" => Cluster::new(&sc, &dir2).run().await,
                    "store" => crate::storew::run(&sc, &dir2).await,
                    "rsender" => crate::rsender::run(&sc).await,
                    "puppet" => crate::puppet::Puppet::new(&sc, &dir2).run().await,
                    other => RunReport { harness_error: Some(format!("unknown world {}", other)), ..Default::default() },
                }
            });
            drop(rt);
            network::simnet::install(None);
            store::verif_tap::install(None);
            crate::entropy::set_thread_seed(None);
            report.panics = PANICS.with(|p| p.borrow().clone());
            // A panic inside the code under test is a C15 violation (a cross-observation for
            // the other checks); the rule carries the location so that classes stay distinct.
            for line in report.panics.clone() {
                if line.starts_with("/repo/") {
                    let loc = line.split(" :: ").next().unwrap_or("").to_string();
                    let rule = format!("panic.{}", loc.trim_start_matches("/repo/").replace('/', "_"));
                    if !report.violations.iter().any(|v| v.prop == "C15" && v.rule == rule) {
                        report.violations.push(crate::obs::Violation { prop: "C15".into(), rule, detail: format!("code under test panicked: {}", line), seq: 0, t_us: report.virt_us, node: None });
                    }
                }
            }
            report
        })
        .expect("spawn run thread");
    let report = match handle.join() {
        Ok(r) => r,
        Err(_) => RunReport { harness_error: Some("run thread panicked".into()), ..Default::default() },
    };
    let _ = std::fs::remove_dir_all(&dir);
    report
}
