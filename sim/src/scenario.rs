//! The explicit scenario value: a run is a pure function of (scenario, code under test).
use crate::net::NetCfg;
use serde::{Deserialize, Serialize};

#[derive(Clone, Debug, Serialize, Deserialize)]
pub struct NodeParams {
    pub timeout_delay: u64,
    pub sync_retry_delay: u64,
    pub gc_depth: u64,
    pub batch_size: usize,
    pub max_batch_delay: u64,
    pub sync_retry_nodes: usize,
}

impl Default for NodeParams {
    fn default() -> Self {
        NodeParams {
            timeout_delay: 1_000,
            sync_retry_delay: 2_000,
            gc_depth: 50,
            batch_size: 500,
            max_batch_delay: 50,
            sync_retry_nodes: 3,
        }
    }
}

#[derive(Clone, Debug, Serialize, Deserialize)]
pub enum EventKind {
    /// Boot a real node through `Node::new`.
    Boot { node: usize },
    /// A client transaction of `len` bytes: first byte `first`, then the 8-byte uid, then padding.
    Tx { client: usize, node: usize, len: usize, first: u8, uid: u64 },
    /// Reset one live connection between the two node sets (picked by `pick` among the live ones).
    ResetConn { src: u64, dst: u64, svc_mask: u8, pick: u64 },
    /// Hostile bytes to a port of a node from harness identity `from`.
    Hostile { from: usize, node: usize, svc: u8, gen: u64 },
    /// Functional probes of a node's services (C15).
    ServiceProbe { node: usize },
    /// Adversary wake-up.
    AdvTick,
    /// Puppet-world step (index into the puppet script).
    Step { idx: usize },
}

#[derive(Clone, Debug, Serialize, Deserialize)]
pub struct TimedEvent {
    pub t_us: u64,
    pub kind: EventKind,
}

/// Adversary configuration for the cluster world (behaviours of the Byzantine authorities).
#[derive(Clone, Debug, Serialize, Deserialize, Default)]
pub struct AdvCfg {
    pub seed: u64,
    /// Probabilities of the behaviours, each decided per opportunity from the keyed seed.
    pub equivocate: f64,
    pub vote_all: f64,
    pub withhold: f64,
    pub stale_qc: f64,
    pub forge_qc_from_tapped: f64,
    pub replay: f64,
    pub silent: f64,
    pub low_timeouts: f64,
    pub ack: f64,
}

#[derive(Clone, Debug, Serialize, Deserialize, Default)]
pub struct Bounds {
    /// Stabilisation instant: no pre-stabilisation fault is active afterwards.
    pub t_stable_us: u64,
    /// Liveness window (C06): every live node's committed round must grow in each window.
    pub liveness_window_us: u64,
    /// End-to-end bound (C13): all submitted transactions committed everywhere by then.
    pub e2e_deadline_us: u64,
    /// Catch-up bound (C07).
    pub catchup_deadline_us: u64,
    /// The node that gets isolated (C07), if any.
    pub lagger: Option<usize>,
    pub heal_us: u64,
    /// (peer, from, until): the peer does not see anything the lagger sends to its consensus port.
    #[serde(default)]
    pub deaf: Option<(usize, u64, u64)>,
    /// Crash the author of the first own proposal that reaches the lagger after the heal, at
    /// that very instant (so that the lagger's request for its parent finds nobody).
    #[serde(default)]
    pub crash_first_proposer: bool,
    /// C07 with a peer that crashes around the heal: every backward step of the catch-up through
    /// a block authored by the crashed peer costs one retry period; the deadline contains this
    /// many such periods, and the run is not judged when the gap would need more.
    #[serde(default)]
    pub slow_steps: u64,
}

/// Content-triggered slow-leader fault: when round r-1 is first seen on the wire and r is in
/// `rounds`, all consensus traffic leaving the leader of r is held for `len_us`.
#[derive(Clone, Debug, Serialize, Deserialize, Default)]
pub struct MuteCfg {
    pub rounds: Vec<u64>,
    pub len_us: u64,
    /// Probability (keyed per round) that one destination is spared.
    pub partial_prob: f64,
}

#[derive(Clone, Debug, Serialize, Deserialize)]
pub struct Scenario {
    pub world: String,
    pub profile: String,
    pub seed: u64,
    pub n: usize,
    pub stakes: Vec<u32>,
    pub byz: Vec<usize>,
    pub params: Vec<NodeParams>,
    pub duration_us: u64,
    pub net: NetCfg,
    pub events: Vec<TimedEvent>,
    pub adv: AdvCfg,
    pub bounds: Bounds,
    #[serde(default)]
    pub mute: Option<MuteCfg>,
    pub tokio_event_interval: u32,
    pub tokio_global_queue_interval: u32,
    /// Free-form world-specific script (puppet steps, component workloads).
    #[serde(default)]
    pub script: serde_json::Value,
}

impl Scenario {
    pub fn honest(&self, i: usize) -> bool {
        !self.byz.contains(&i)
    }
}
