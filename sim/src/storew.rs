//! World W3 (store): the real `Store` (RocksDB) driven by several client tasks holding clones of
//! the handle. The store-side taps give the exact order in which the store task takes up the
//! commands, so the history is checked operation by operation against a map model.
use crate::cluster::RunReport;
use crate::obs::Violation;
use crate::scenario::Scenario;
use serde::{Deserialize, Serialize};
use std::collections::{BTreeMap, HashMap};
use std::future::Future as _;
use std::sync::{Arc, Mutex};
use store::Store;

#[derive(Clone, Debug, Serialize, Deserialize)]
pub enum StOp {
    Write { key: u8, val: u32 },
    Read { key: u8 },
    Notify { key: u8 },
    /// A notify-read whose caller gives up (its future is dropped) right after the command
    /// has been sent: the store is left with a waiter nobody listens to.
    NotifyDrop { key: u8 },
    Yield { n: u8 },
}

#[derive(Clone, Debug, Serialize, Deserialize)]
pub struct StCfg {
    pub clients: Vec<Vec<StOp>>,
    pub reopen: bool,
}

#[derive(Clone, Debug)]
enum Ev {
    Invoke { op: usize, kind: char, key: u8, val: u32 },
    Taken { kind: char, key: Vec<u8>, val: Vec<u8> },
    Return { op: usize, result: Option<Vec<u8>> },
}

fn key_bytes(k: u8) -> Vec<u8> {
    vec![b'k', k]
}

/// Value shapes: mostly a unique printable string; every fifth value is the EMPTY byte string
/// (a key written with it exists and must be distinguished from a key never written), every
/// fifth a single zero byte.
fn val_bytes(v: u32) -> Vec<u8> {
    match v % 5 {
        0 => Vec::new(),
        1 => vec![0u8],
        _ => format!("v{:08}", v).into_bytes(),
    }
}

pub async fn run(sc: &Scenario, dir: &str) -> RunReport {
    let cfg: StCfg = serde_json::from_value(sc.script.clone()).expect("store script");
    let path = format!("{}/db-0", dir);
    let log: Arc<Mutex<Vec<Ev>>> = Arc::new(Mutex::new(Vec::new()));
    let mut violations: Vec<Violation> = Vec::new();
    let mut probes: BTreeMap<String, u64> = BTreeMap::new();
    let mut harness_error = None;
    let mut viol = |violations: &mut Vec<Violation>, rule: &str, detail: String| {
        if !violations.iter().any(|v| v.rule == rule) {
            violations.push(Violation { prop: "C16".into(), rule: rule.into(), detail, seq: 0, t_us: 0, node: None });
        }
    };
    {
        let l1 = log.clone();
        store::verif_tap::install(Some(Box::new(move |_p: &str, k: &[u8], v: &[u8]| {
            l1.lock().unwrap().push(Ev::Taken { kind: 'w', key: k.to_vec(), val: v.to_vec() });
        })));
        let l2 = log.clone();
        store::verif_tap::install_command_tap(Some(Box::new(move |_p: &str, kind: char, k: &[u8]| {
            l2.lock().unwrap().push(Ev::Taken { kind, key: k.to_vec(), val: Vec::new() });
        })));
    }
    let store = Store::new(&path).expect("open store");
    // The registry of the write tap holds a clone of the handle; forget it (reopen needs the
    // store task to end) but keep the taps.
    {
        let l1 = log.clone();
        store::verif_tap::install(Some(Box::new(move |_p: &str, k: &[u8], v: &[u8]| {
            l1.lock().unwrap().push(Ev::Taken { kind: 'w', key: k.to_vec(), val: v.to_vec() });
        })));
    }

    // Global operation numbering: (client, index) -> op id.
    let mut next_op = 0usize;
    let mut op_ids: Vec<Vec<usize>> = Vec::new();
    for c in &cfg.clients {
        let mut ids = Vec::new();
        for _ in c {
            ids.push(next_op);
            next_op += 1;
        }
        op_ids.push(ids);
    }
    let mut handles = Vec::new();
    let mut waiter_handles = Vec::new();
    let waiters: Arc<Mutex<Vec<tokio::task::JoinHandle<()>>>> = Arc::new(Mutex::new(Vec::new()));
    let dropped: Arc<Mutex<std::collections::HashSet<usize>>> = Arc::new(Mutex::new(std::collections::HashSet::new()));
    for (ci, ops) in cfg.clients.iter().enumerate() {
        let mut st = store.clone();
        let ops = ops.clone();
        let ids = op_ids[ci].clone();
        let log = log.clone();
        let waiters = waiters.clone();
        let dropped = dropped.clone();
        handles.push(tokio::spawn(async move {
            for (i, op) in ops.iter().enumerate() {
                let id = ids[i];
                match op {
                    StOp::Yield { n } => {
                        for _ in 0..*n {
                            tokio::task::yield_now().await;
                        }
                    }
                    StOp::Write { key, val } => {
                        log.lock().unwrap().push(Ev::Invoke { op: id, kind: 'w', key: *key, val: *val });
                        st.write(key_bytes(*key), val_bytes(*val)).await;
                        log.lock().unwrap().push(Ev::Return { op: id, result: None });
                    }
                    StOp::Read { key } => {
                        log.lock().unwrap().push(Ev::Invoke { op: id, kind: 'r', key: *key, val: 0 });
                        let r = st.read(key_bytes(*key)).await;
                        match r {
                            Ok(v) => log.lock().unwrap().push(Ev::Return { op: id, result: v }),
                            Err(_) => log.lock().unwrap().push(Ev::Return { op: id, result: Some(b"<error>".to_vec()) }),
                        }
                    }
                    StOp::Notify { key } | StOp::NotifyDrop { key } => {
                        let give_up = matches!(op, StOp::NotifyDrop { .. });
                        if give_up {
                            dropped.lock().unwrap().insert(id);
                        }
                        // The command is sent now (so its place in the command order is fixed);
                        // the reply is awaited by a separate task so that the client goes on.
                        let mut st2 = st.clone();
                        let key = *key;
                        let log2 = log.clone();
                        let (tx_sent, rx_sent) = tokio::sync::oneshot::channel::<()>();
                        let h = tokio::spawn(async move {
                            let fut = st2.notify_read(key_bytes(key));
                            tokio::pin!(fut);
                            // Invocation and sending of the command happen within one poll.
                            log2.lock().unwrap().push(Ev::Invoke { op: id, kind: 'n', key, val: 0 });
                            // First poll sends the command; signal the client right after it.
                            let mut tx_sent = Some(tx_sent);
                            let r = std::future::poll_fn(|cx| {
                                let p = fut.as_mut().poll(cx);
                                if let Some(t) = tx_sent.take() {
                                    let _ = t.send(());
                                }
                                p
                            })
                            .await;
                            match r {
                                Ok(v) => log2.lock().unwrap().push(Ev::Return { op: id, result: Some(v) }),
                                Err(_) => log2.lock().unwrap().push(Ev::Return { op: id, result: Some(b"<error>".to_vec()) }),
                            }
                        });
                        let _ = rx_sent.await;
                        if give_up {
                            h.abort();
                        }
                        waiters.lock().unwrap().push(h);
                    }
                }
            }
        }));
    }
    for h in handles {
        let _ = h.await;
    }
    // Quiescence: nothing left to run.
    tokio::time::sleep(tokio::time::Duration::from_millis(50)).await;
    for h in waiters.lock().unwrap().drain(..) {
        waiter_handles.push(h);
    }

    // ---- check the history against the model -------------------------------------------------
    let dropped_ops: std::collections::HashSet<usize> = dropped.lock().unwrap().clone();
    let events = log.lock().unwrap().clone();
    let mut invoked: Vec<(usize, char, u8, u32)> = Vec::new();
    let mut taken: Vec<(char, Vec<u8>, Vec<u8>)> = Vec::new();
    let mut returned: HashMap<usize, Option<Vec<u8>>> = HashMap::new();
    for e in &events {
        match e {
            Ev::Invoke { op, kind, key, val } => invoked.push((*op, *kind, *key, *val)),
            Ev::Taken { kind, key, val } => taken.push((*kind, key.clone(), val.clone())),
            Ev::Return { op, result } => {
                returned.insert(*op, result.clone());
            }
        }
    }
    *probes.entry("st.ops".into()).or_insert(0) += invoked.len() as u64;
    if taken.len() != invoked.len() {
        viol(&mut violations, "command-lost-or-duplicated", format!("{} commands were issued but the store task took up {}", invoked.len(), taken.len()));
    }
    let mut model: HashMap<u8, Vec<u8>> = HashMap::new();
    let mut pending: HashMap<u8, Vec<usize>> = HashMap::new();
    let mut expected: HashMap<usize, Option<Vec<u8>>> = HashMap::new();
    let mut concurrent_waiters = 0usize;
    for (i, (op, kind, key, val)) in invoked.iter().enumerate() {
        if let Some((tk, tkey, tval)) = taken.get(i) {
            if *tk != *kind || *tkey != key_bytes(*key) || (*kind == 'w' && *tval != val_bytes(*val)) {
                harness_error = Some(format!("command order mismatch at position {}: issued {}{} but the store took up {}{:?}", i, kind, key, tk, tkey));
                break;
            }
        }
        match kind {
            'w' => {
                model.insert(*key, val_bytes(*val));
                if let Some(ws) = pending.remove(key) {
                    concurrent_waiters = concurrent_waiters.max(ws.len());
                    for w in ws {
                        expected.insert(w, Some(val_bytes(*val)));
                    }
                    *probes.entry("st.waiters-woken-by-write".into()).or_insert(0) += 1;
                }
            }
            'r' => {
                expected.insert(*op, model.get(key).cloned());
                if model.contains_key(key) {
                    *probes.entry("st.read-hit".into()).or_insert(0) += 1;
                } else {
                    *probes.entry("st.read-miss".into()).or_insert(0) += 1;
                }
            }
            _ => match model.get(key) {
                Some(v) => {
                    expected.insert(*op, Some(v.clone()));
                    *probes.entry("st.notify-immediate".into()).or_insert(0) += 1;
                }
                None => pending.entry(*key).or_default().push(*op),
            },
        }
    }
    if concurrent_waiters >= 2 {
        *probes.entry("st.several-waiters-one-key".into()).or_insert(0) += 1;
    }
    if harness_error.is_none() {
        for (op, kind, key, _) in &invoked {
            if *kind == 'w' {
                continue;
            }
            if dropped_ops.contains(op) {
                // The caller gave up: whether a reply still reached it is not judged.
                *probes.entry("st.waiter-dropped".into()).or_insert(0) += 1;
                continue;
            }
            match (expected.get(op), returned.get(op)) {
                (Some(exp), Some(got)) => {
                    if exp != got {
                        let rule = if *kind == 'r' { "read-returned-wrong-value" } else { "notify-read-returned-wrong-value" };
                        viol(&mut violations, rule, format!("operation {} ({} key {}) returned {:?} but the value at that point of the command order was {:?}", op, kind, key, got.as_ref().map(|v| String::from_utf8_lossy(v).to_string()), exp.as_ref().map(|v| String::from_utf8_lossy(v).to_string())));
                    }
                }
                (Some(_), None) => {
                    let rule = if *kind == 'r' { "read-never-returned" } else { "notify-read-missed-a-write" };
                    viol(&mut violations, rule, format!("operation {} ({} key {}) has not returned at quiescence although a value for the key exists", op, kind, key));
                }
                (None, Some(got)) => {
                    viol(&mut violations, "notify-read-returned-without-a-write", format!("operation {} (notify-read key {}) returned {:?} although the key was never written", op, key, got));
                }
                (None, None) => {
                    *probes.entry("st.notify-still-pending".into()).or_insert(0) += 1;
                }
            }
        }
    }

    // ---- reopen --------------------------------------------------------------------------------
    if cfg.reopen && harness_error.is_none() {
        for h in waiter_handles.drain(..) {
            h.abort();
        }
        drop(store);
        store::verif_tap::install(None);
        store::verif_tap::install_command_tap(None);
        for _ in 0..20 {
            tokio::task::yield_now().await;
        }
        tokio::time::sleep(tokio::time::Duration::from_millis(10)).await;
        match Store::new(&path) {
            Ok(mut st) => {
                for (k, v) in &model {
                    match st.read(key_bytes(*k)).await {
                        Ok(Some(got)) if got == *v => {
                            *probes.entry("st.reopen-value-checked".into()).or_insert(0) += 1;
                        }
                        other => viol(&mut violations, "value-lost-across-reopen", format!("after reopening the store key {} reads {:?} instead of {:?}", k, other.ok().flatten().map(|x| String::from_utf8_lossy(&x).to_string()), String::from_utf8_lossy(v))),
                    }
                }
                for k in 0..8u8 {
                    if !model.contains_key(&k) {
                        if let Ok(Some(_)) = st.read(key_bytes(k)).await {
                            viol(&mut violations, "phantom-value-after-reopen", format!("key {} was never written but has a value after reopening", k));
                        }
                    }
                }
            }
            Err(e) => harness_error = Some(format!("cannot reopen the store (handle still alive?): {}", e)),
        }
    }
    let sig = events.iter().fold(0u64, |a, e| {
        let x = match e {
            Ev::Invoke { op, .. } => 1000 + *op as u64,
            Ev::Taken { kind, .. } => *kind as u64,
            Ev::Return { op, .. } => 2000 + *op as u64,
        };
        crate::rng::mix(&[a, x])
    });
    RunReport { violations, probes, faults: BTreeMap::new(), log_hash: sig, sig_hash: sig, virt_us: 60_000, events: events.len() as u64, conns: 0, panics: Vec::new(), harness_error, trace_tail: if crate::obs::KEEP_TRACE.load(std::sync::atomic::Ordering::SeqCst) { events.iter().take(400).map(|e| format!("{:?}", e)).collect() } else { Vec::new() } }
}
