#!/usr/bin/env python3
"""Regenerates /verif/MANIFEST.json from the table below (run after adding or changing a check)."""
import json, subprocess, os

HOOKS = subprocess.run(["git", "-C", "/repo", "log", "--format=%H %s"], capture_output=True, text=True).stdout.splitlines()
HOOK_COMMITS = [l.split()[0] for l in HOOKS if " verif hook " in l]

SIM_BASE = ("Deterministic simulation: the shipped nodes (consensus, mempool, RocksDB store, crypto, network senders/receiver, "
            "node.rs wiring) run unmodified in one thread on a paused tokio clock over an in-memory transport owned by the simulator; "
            "one seed decides every latency, fault and scheduler knob; seeded search over scenarios; violations are confirmed, "
            "minimised and replayed from a file in a fresh process.")
NOTE_BASE = ("Sampling, not enumeration. Trusted: the harness (sim/src), tokio's paused clock and current_thread scheduler, the "
             "independent checker in sim/src/ident.rs (ed25519-dalek + SHA-512). TCP is modelled as ordered bytes/EOF/reset; "
             "disk and allocation faults are not injected. ")

CHECKS = {
 "C01": dict(ref="5/C01", tech="deterministic simulation (cluster world) + seeded fault/schedule search; global block-tree agreement monitor over all commit channels",
   text="Exploration: every commit of every honest node in every run is checked against one global committed chain built from independently computed block digests and parent links; scenarios mix view changes, partitions, crashes, resets, slow nodes and (where enabled) Byzantine authorities within the f bound.",
   note="Byzantine behaviour is the strategy mix of the adversary module, not every behaviour."),
 "C02": dict(ref="5/C02", tech="deterministic simulation (cluster world) + seeded fault/schedule search; per-node commit-sequence monitor",
   text="Exploration: each node's commit channel is checked block by block (first block is a child of genesis, each next block's parent is the block delivered just before, genesis never delivered); the generator forces view-change chain shapes (slow leaders on seeded rounds, partial delivery) and the batch fails as 'not reached' unless commits across round gaps occurred.",
   note="Found and repaired a genuine defect (see known_findings.json)."),
}

NOT_APPLICABLE = {
 "C17": "pure arithmetic over the committee value: no schedule, clock, fault or interleaving for a simulator to decide (DESIGN.md section 6)",
 "C18": "pure functions of keys, digests, signatures and encoders: no schedule, clock, fault or interleaving (DESIGN.md section 6)",
}

props = [json.loads(l)["id"] for l in open("/verif/properties.jsonl")]
checks = []
for pid in props:
    if pid not in CHECKS:
        continue
    c = CHECKS[pid]
    checks.append({
        "property_id": pid,
        "quick_cmd": f"./check {pid} quick",
        "thorough_cmd": f"./check {pid} thorough",
        "evidence_file": f"/verif/evidence/{pid}.json",
        "replay_cmd_template": "./check replay {path}",
        "engine": "hsim",
        "level_claimed": {"category": c.get("cat", "exploration"), "text": c["text"], "design_ref": c["ref"]},
        "level_note": NOTE_BASE + c["note"],
        "technique": c["tech"],
    })
na = []
for pid in props:
    if pid in CHECKS:
        continue
    na.append({"property_id": pid, "reason": NOT_APPLICABLE.get(pid, "not claimed yet: check under construction (see DESIGN.md)")})

manifest = {
    "version": 1,
    "setup_cmd": "cd /verif/sim && CARGO_NET_OFFLINE=true cargo build --release --offline && cp -f /verif/target/release/hsim /verif/target/hsim-default",
    "hooks": {
        "guard": "--cfg hotstuff_verif",
        "enable": "rustflags '--cfg hotstuff_verif --cfg tokio_unstable' in /verif/sim/.cargo/config.toml (harness crate only; /repo's manifests and lock file untouched)",
        "baseline_off_cmd": "cd /repo && cargo test --workspace --no-fail-fast --offline",
        "source_commits": HOOK_COMMITS,
        "add_only": True,
    },
    "engines": [{
        "name": "hsim",
        "path": "/verif/sim",
        "serves_properties": sorted(CHECKS.keys()),
        "kind_free_text": SIM_BASE,
    }],
    "checks": checks,
    "notes": "Exit codes of every command: 0 held, 1 violation (VIOLATION line), 2 harness/build/determinism error. VERIF_SEED selects the batch seed (default fixed). Known findings: /verif/known_findings.json.",
    "not_applicable": na,
}
json.dump(manifest, open("/verif/MANIFEST.json", "w"), indent=1)
print("checks:", [c["property_id"] for c in checks], "n/a:", [x["property_id"] for x in na])
