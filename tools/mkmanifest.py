#!/usr/bin/env python3
"""Regenerates /verif/MANIFEST.json from the table below (run after adding or changing a check)."""
import json, subprocess, os

HOOKS = subprocess.run(["git", "-C", "/repo", "log", "--format=%H %s"], capture_output=True, text=True).stdout.splitlines()
HOOK_COMMITS = [l.split()[0] for l in HOOKS if " verif hook " in l]

SIM_BASE = ("Deterministic simulation: the shipped nodes (consensus, mempool, RocksDB store, crypto, network senders/receiver, "
            "node.rs wiring) run unmodified in one thread on a paused tokio clock over an in-memory transport owned by the simulator; "
            "one seed decides every latency, fault and scheduler knob; seeded search over scenarios; violations are confirmed, "
            "minimised and replayed from a file in a fresh process.")
NOTE_BASE = ("Sampling, not enumeration. Trusted: the harness (sim/src), tokio's paused clock and current_thread scheduler, the "
             "independent checker in sim/src/ident.rs (ed25519-dalek + SHA-512). TCP is modelled as ordered bytes/EOF/reset; "
             "disk and allocation faults are not injected. ")

CHECKS = {
 "C01": dict(ref="5/C01", tech="deterministic simulation (cluster world) + seeded fault/schedule search; global block-tree agreement monitor over all commit channels",
   text="Exploration: every commit of every honest node in every run is checked against one global committed chain built from independently computed block digests and parent links; scenarios mix view changes, partitions, crashes, resets, slow nodes and (where enabled) Byzantine authorities within the f bound; 30% contain a split brain (honest nodes cut into two arcs of the leader rotation for 6-16 timeouts, Byzantine members connected to both sides).",
   note="Byzantine behaviour is the strategy mix of the adversary module, not every behaviour."),
 "C02": dict(ref="5/C02", tech="deterministic simulation (cluster world) + seeded fault/schedule search; per-node commit-sequence monitor",
   text="Exploration: each node's commit channel is checked block by block (first block is a child of genesis, each next block's parent is the block delivered just before, genesis never delivered); the generator forces view-change chain shapes (slow leaders on seeded rounds, partial delivery) and the batch fails as 'not reached' unless commits across round gaps and multi-ancestor commits occurred.",
   note="Found and repaired a genuine defect (see known_findings.json)."),
 "C03": dict(ref="5/C03", tech="deterministic simulation + seeded fault/schedule search; wire monitor on votes, own signatures inside emitted QCs, and timeouts, ordered per connection",
   text="Exploration: every vote an honest node puts on the wire (and every signature of its own inside QCs it emits) is checked: one block per round, rounds strictly increasing and never at or below an earlier timeout on the same link, voted block extends a QC of the previous round or is justified by a TC whose highest reported QC round does not exceed the block's QC.",
   note="Orders are compared only within one sender-destination link (FIFO by construction); votes a node casts as next leader are seen only through QCs it later emits."),
 "C05": dict(ref="5/C05", tech="deterministic simulation + seeded fault/schedule search; commit-justification monitor judged at the moment of delivery (certified consecutive 2-chain already shown to the node, for the block or a descendant)",
   text="Exploration: at the moment of each delivery the block, or a descendant of it, must have a child of round +1 certified by a valid QC (independently verified) that had already been delivered to the node, emitted by it, or was assemblable from votes delivered to it (cluster and puppet world, the latter with forged degenerate certificates). Slow-leader faults produce gaps at both positions of the 2-chain.",
   note="Uses delivered-by-then as the evidence set (a superset of processed-by-then), so the oracle is only ever more permissive than the statement."),
 "C06": dict(ref="5/C06", tech="deterministic simulation + seeded crash/delay search; bounded-liveness monitor after stabilisation",
   text="Exploration with bounded liveness: up to f (by stake) crashes at arbitrary instants, heavy-tail delays and stalls before a stabilisation instant, timely delivery afterwards; every live node's highest committed round must grow in every window of (2f+4) max-timeouts + sync_retry_delay + 7 s.",
   note="The bound is calibrated (worst observed gap stays below a third of the window on the unchanged tree). One structural known finding (unequal stakes, see known_findings.json) is reported as KNOWN-FINDING."),
 "C07": dict(ref="5/C07", tech="deterministic simulation + seeded isolation/heal search; catch-up monitor over commit sequences and sync traffic",
   text="Exploration with bounded liveness: a seeded node is cut off for a seeded interval while the others commit (with or without view changes), then healed (optionally with a mute first sync target and clock jumps); by the deadline its committed round must reach what the others had one liveness window earlier, its sequence obeys the C02/C01 monitors, sync replies from helpers equal the originally proposed block, and every request left unanswered by a deaf peer is repeated for the same block to other peers within sync_retry_delay + 12 s. A quarter of the scenarios run in the puppet world with a starve episode: a certified parent is withheld while further valid blocks on top of it keep arriving every 400 ms, and the node must ask another peer within the retry period all the same. Variants crash the first proposer after the heal or another node near it.",
   note="Deadline includes the reliable sender's reconnection back-off (up to twice the isolation, capped at 62 s) and the deafness of a finitely deaf peer. One known finding (a peer deaf for ever) is reported as KNOWN-FINDING."),
 "C08": dict(ref="5/C08", tech="deterministic simulation + seeded fault/schedule search; store-write tap versus vote and commit instants",
   text="Exploration: at the instant a vote for a foreign block is written to the wire and at every commit, each payload digest must already be a key in that node's store (write observed through the store tap with an earlier sequence number).",
   note="Commit instants are observed when the harness drains the commit channel (slightly later than the send)."),
 "C09": dict(ref="5/C09", tech="deterministic simulation (cluster with Byzantine usurpers and puppet world) + seeded fault/schedule search; observational proposer-agreement, rotation and equivocation monitor",
   text="Exploration: whoever honest nodes treat as the proposer of a round (by proposing in it or voting for a block of it) must be one authority; voted blocks are signed by their author; over any n consecutive voted rounds the proposers are n distinct authorities; no honest authority emits two different blocks for one round; committee files are written in a different insertion order per node; the adversary sends correctly signed proposals for rounds it does not lead.",
   note="Equivocation is judged on blocks seen on the wire. Agreement with the sorted-key round robin is a probe only; the harness drives W2 and the adversary with that schedule."),
 "C10": dict(ref="5/C10", tech="deterministic simulation + seeded fault/schedule search; evidence-based round monitor and timeout high-QC monitor",
   text="Exploration: an honest node emitting a vote/timeout/proposal for round r>1 must have been shown a valid QC/TC of round >= r-1 or quorum votes/timeouts to assemble one; per link the acting round never decreases; first emissions of its own proposals have increasing rounds; each timeout's QC is at least the QC of blocks voted earlier and of earlier timeouts on that link and below the timeout's round.",
   note="Cross-connection orders are not compared."),
 "C11": dict(ref="5/C11", tech="deterministic simulation in two builds (default and benchmark feature) + seeded size/timing search; conservation, order, seal-rule and content-addressing monitors on wire and store tap",
   text="Exploration in both build configurations: transactions of sizes 0,1,8,9,batch_size-1,batch_size,batch_size+1,multiples, with arrival gaps around the seal timer, must be released exactly once, in per-connection order, batches sealed by size or within max_batch_delay, every batch stored under SHA-512/256 of its exact bytes and proposed under that digest; every batch frame a node receives (including harness-sent batches with trailing bytes, a non-canonical encoding) must be in its store under the hash of exactly the received bytes.",
   note="Found and repaired a genuine defect in the benchmark build (see known_findings.json). Empty transactions are attributed by count only."),
 "C12": dict(ref="5/C12", tech="deterministic simulation + seeded ACK-delay/mute/stake search; ACK-pairing tap versus store-write and proposal instants",
   text="Exploration: when a node's store applies the write of its own batch, and when it proposes its digest, the peers whose acknowledgement frames (paired per connection with the batch frame) had been written by then, plus the node, must hold a quorum of stake (computed independently).",
   note="'Sent by the peer' is earlier than 'received by the node' (permissive direction). One known finding (own batch re-entering via a peer) is reported as KNOWN-FINDING."),
 "C13": dict(ref="5/C13", tech="deterministic simulation + seeded load/missed-broadcast search; end-to-end monitor at a bounded deadline",
   text="Exploration with bounded liveness: without crashes or view-change faults, every transaction submitted before the load ends must be in a batch referenced by a block committed by every node, with the batch bytes stored by each, by load end + 1 s + 3 x (sync_retry_delay + 8 s); nodes whose mempool links are cut miss broadcasts and must fetch the batches; 25% add a one-way cut for the rest of the run (all peers but one or two cannot reach one node's mempool port; two retry targets, no garbage collection, deadline + 30 s); 30% of the scenarios add a burst of 40-100 n single-transaction batches within 1-60 ms (blocks with far more than 32 digests).",
   note="Required probes ensure batch requests and helper replies actually occurred."),
 "C19": dict(ref="5/C19", tech="deterministic simulation + seeded fault/schedule search; independent certificate checker on every emitted QC/TC",
   text="Exploration: every QC and TC an honest node emits (in proposals, timeouts, TC broadcasts) is re-verified independently (distinct members, quorum stake, every signature valid for one (block, round) resp. (round, high-QC round)); no TC is sent twice to a peer.",
   note="The exactly-when half is decided in the puppet world."),

 "C04": dict(ref="5/C04", tech="deterministic simulation (puppet world: one real node, harness holds all other keys) + seeded search over 36 kinds of invalid variant; 'no effect' oracles on votes, store writes, round evidence and emitted certificates",
   text="Exploration: invalid variants of proposals, votes, timeouts, QCs and TCs (flipped signature bits, altered signed fields with the signature kept, signatures transplanted between blocks and message kinds, repeated / non-member signers, one signer below quorum, certificates over another round or for future rounds, superfluous invalid TCs on otherwise valid proposals, degenerate round-0 / zero-hash certificates, certificates padded with an invalid entry after a genuine quorum; half of the invalid proposals with a payload name a batch the node can fetch from the harness on request) are delivered between valid traffic; the node must never vote for, store or commit a block of which it only saw an invalid variant, never act in a round that only an invalid certificate justifies, never emit a certificate containing an invalid vote/timeout, and must still vote for the next valid proposal after rejections.",
   note="The twin-run non-interference oracle of DESIGN.md was not built; 'behaviour unchanged' is judged through the no-effect oracles and the expected-vote model."),
 "C20": dict(ref="5/C20", tech="deterministic simulation (puppet world) + seeded single-field-variant and cross-kind splice injection judged by the node's reaction; store/wire round trip through the real sync path",
   text="Exploration: variants differing in one bound field (author, round, payload entry, parent, payload/parent boundary shift, swapped round/QC round) or carrying a signature of another kind (vote<->timeout<->block) re-use the original signature and must be rejected (no vote, no store); blocks fetched from the node's helper must be byte-identical to a block it was given under that digest; every frame the node writes must decode and its own signatures must verify under the independently computed digests.",
   note="Parts (a)/(b) of the statement are pure; they are decided here only through the real node's reaction to injected variants (input generation inside a simulation), as DESIGN.md states."),
 "C14": dict(ref="5/C14", cat="fault_enumeration", tech="deterministic simulation of the real ReliableSender against the real Receiver; complete enumeration of a finite connection-fault sub-space plus seeded exploration; delivery/order/ACK-pairing/cancellation monitor",
   text="Fault enumeration: for 1..4 messages (burst or spaced) the first connection is broken at every frame position in either direction (request lost / just received, acknowledgement lost / just received), crossed with 0..3 refused reconnections and with one cancellation at every position: 3472 cases, all executed on every run. On top, seeded exploration with up to 50 messages, several breaks, peer-down intervals, random cancellations, short/pending writes and split reads; a quarter of the exploration scenarios are a steady sender through an outage (a message every 20-150 ms while the peer is unreachable and until the doubling back-off must have reconnected, run ending 100 ms after the last hand-over). Oracle: every kept message delivered and its handle resolved within the quiet tail, first deliveries in hand-over order, a handle resolves only with ack:<its own message> and not before the peer received it, a cancelled message is not written on connections opened after the cancellation.",
   note="Beyond the enumerated sub-space this is sampling. A break loses the bytes in flight in both directions."),
 "C15": dict(ref="5/C15", tech="deterministic simulation in two builds + seeded hostile-frame injection on all three ports; process-wide panic hook and functional service probes",
   text="Exploration in both build configurations: 20-200 hostile inputs per run (random bytes, oversize and truncated frames, mutated copies of real frames, out-of-range tags, huge lengths, malformed key strings, cross-component digests of the shared store, unknown origins, absurd rounds signed by a harness-held authority, 1 MiB transactions) followed by probes of every service of every node: still commits, answers a block sync request and a batch request from its store, batches a fresh transaction; any panic inside /repo code is a violation.",
   note="Found and repaired two genuine defects (see known_findings.json). Decoder totality is exercised where reachable from the wire and from the JSON files read by Node::new, not by direct calls."),
 "C16": dict(ref="5/C16", tech="deterministic simulation of the real Store (RocksDB) under several concurrent handles with seeded yields; exact command order from store-side taps checked against a map model; reopen",
   text="Exploration: 2..6 client tasks, 1..4 overlapping keys, values that are unique strings, the empty byte string or a single zero byte, a fifth of the notify-reads abandoned by their caller right after the command was sent, writes / reads / notify-reads with several waiters per key registered before and after writes; every result is compared with a sequential map model replayed in the exact order in which the store task took up the commands; every notify-read on a written key has returned at quiescence with the first value written after its registration (or the current one), those on unwritten keys stay pending; after dropping all handles the store is reopened and every key reads its last value.",
   note="Interleavings are varied by seeded yields and tokio knobs rather than by an own poll-order scheduler (DESIGN.md said scheduler; corrected there). Process kill is not simulated."),
}

NOT_APPLICABLE = {
 "C17": "pure arithmetic over the committee value: no schedule, clock, fault or interleaving for a simulator to decide (DESIGN.md section 6)",
 "C18": "pure functions of keys, digests, signatures and encoders: no schedule, clock, fault or interleaving (DESIGN.md section 6)",
}

props = [json.loads(l)["id"] for l in open("/verif/properties.jsonl")]
checks = []
for pid in props:
    if pid not in CHECKS:
        continue
    c = CHECKS[pid]
    checks.append({
        "property_id": pid,
        "quick_cmd": f"./check {pid} quick",
        "thorough_cmd": f"./check {pid} thorough",
        "evidence_file": f"/verif/evidence/{pid}.json",
        "replay_cmd_template": "./check replay {path}",
        "engine": "hsim",
        "level_claimed": {"category": c.get("cat", "exploration"), "text": c["text"], "design_ref": c["ref"]},
        "level_note": NOTE_BASE + c["note"],
        "technique": c["tech"],
    })
na = []
for pid in props:
    if pid in CHECKS:
        continue
    na.append({"property_id": pid, "reason": NOT_APPLICABLE.get(pid, "not claimed yet: check under construction (see DESIGN.md)")})

manifest = {
    "version": 1,
    "setup_cmd": "cd /verif/sim && CARGO_NET_OFFLINE=true cargo build --release --offline && cp -f /verif/target/release/hsim /verif/target/hsim-default",
    "hooks": {
        "guard": "--cfg hotstuff_verif",
        "enable": "rustflags '--cfg hotstuff_verif --cfg tokio_unstable' in /verif/sim/.cargo/config.toml (harness crate only; /repo's manifests and lock file untouched)",
        "baseline_off_cmd": "cd /repo && cargo test --workspace --no-fail-fast --offline",
        "source_commits": HOOK_COMMITS,
        "add_only": True,
    },
    "engines": [{
        "name": "hsim",
        "path": "/verif/sim",
        "serves_properties": sorted(CHECKS.keys()),
        "kind_free_text": SIM_BASE,
    }],
    "checks": checks,
    "notes": "Exit codes of every command: 0 held, 1 violation (VIOLATION line), 2 harness/build/determinism error. VERIF_SEED selects the batch seed (default fixed). Known findings: /verif/known_findings.json.",
    "not_applicable": na,
}
json.dump(manifest, open("/verif/MANIFEST.json", "w"), indent=1)
print("checks:", [c["property_id"] for c in checks], "n/a:", [x["property_id"] for x in na])
