#!/bin/sh
# Runs every seeded change in /verif/seeded against the quick check(s) designated for it and
# prints one line per (change, check). /repo's working tree is patched and restored per change;
# evidence and replay files go to /tmp/vt-mut. Usage: tools/regress_seeded.sh [id ...]
cd /verif || exit 2
table="C01:C01,C10 C01b:C01,C19 C02:C02 C02b:C02 C03:C03 C03b:C03 C04:C04 C04b:C04,C10 C05:C05 C05b:C05,C04 C06:C06 C06b:C06 C07:C07 C07b:C07 C08:C08 C08b:C08 C09:C09 C09b:C09 C10:C10 C10b:C10,C04 C11:C11 C11b:C11 C12:C12 C12b:C12 C13:C13 C13b:C13 C14:C14 C14b:C14 C15:C15 C15b:C15 C16:C16 C16b:C16 C19:C19 C19b:C19 C20:C20 C20b:C20"
for e in $table; do
    id=${e%%:*}; props=$(echo ${e#*:} | tr ',' ' ')
    if [ $# -gt 0 ]; then case " $* " in *" $id "*) ;; *) continue;; esac; fi
    echo "== $id"
    tools/try_mutant.sh /verif/seeded/$id/patch.diff $props
done
git -C /repo status --short
