#!/bin/sh
# usage: try_mutant.sh <patch-file> <prop> [<prop> ...]
# Applies a patch to /repo's working tree, runs the quick checks of the given properties,
# prints one line per property, and restores /repo (never commits). Evidence and replay files of
# these runs go to /tmp/vt-mut, not to /verif.
PATCH="$1"; shift
cd /repo || exit 2
if ! git apply --check "$PATCH" 2>/dev/null; then echo "patch does not apply: $PATCH"; exit 2; fi
git apply "$PATCH"
mkdir -p /tmp/vt-mut
for p in "$@"; do
    out=$(cd /verif && HSIM_OUT_DIR=/tmp/vt-mut ./check "$p" quick 2>&1)
    rc=$?
    line=$(echo "$out" | grep -E "^violation:|^VIOLATION|HARNESS-ERROR" | head -2 | cut -c1-300 | tr '\n' ' ')
    echo "[$p rc=$rc] $line"
done
git -C /repo checkout -- .
# Leave a binary built from the restored tree behind (the checks above built the patched one).
(cd /verif/sim && cargo build --release --offline >/dev/null 2>&1 && cp -f /verif/target/release/hsim /verif/target/hsim-default)
