#!/bin/sh
# usage: verify_seeded.sh <id> <scratch worktree with SEEDED/patch.diff and SEEDED/demo.diff>
# Confirms in the scratch worktree (never in /repo): suite passes with the patch alone, the
# demonstration fails with patch+demo, everything passes with the demo alone. Appends one line
# to /verif/seeded/verification.log. Each suite run gets its own network namespace (fixed TCP ports).
ID="$1"; WT="$2"
cd "$WT" || exit 2
count() { # $1 log
    p=$(grep -E "^test result:" "$1" | sed -E 's/.* ([0-9]+) passed.*/\1/' | paste -sd+ | bc)
    f=$(grep -E "^test result:" "$1" | sed -E 's/.* ([0-9]+) failed.*/\1/' | paste -sd+ | bc)
    echo "passed=${p:-0} failed=${f:-0}"
}
clean() { git checkout -q -- . ; git clean -fdq -e SEEDED -e target; }
# own network namespace: the suite binds fixed TCP ports, so concurrent runs need separate loopbacks
run() { unshare -n sh -c "ip link set lo up; timeout 1500 cargo test --workspace --offline --no-fail-fast" >"$1" 2>&1; }
clean
git apply SEEDED/patch.diff || { echo "$ID: patch does not apply"; exit 2; }
run /tmp/vs-$ID-patch.log; A=$(count /tmp/vs-$ID-patch.log)
git apply SEEDED/demo.diff || { echo "$ID: demo does not apply on patch"; clean; exit 2; }
run /tmp/vs-$ID-both.log; B=$(count /tmp/vs-$ID-both.log)
clean
git apply SEEDED/demo.diff || { echo "$ID: demo does not apply"; exit 2; }
run /tmp/vs-$ID-demo.log; C=$(count /tmp/vs-$ID-demo.log)
clean
echo "$ID: patch-only[$A] patch+demo[$B] demo-only[$C]" | tee -a /verif/seeded/verification.log
